"""Entry point: python -B mc/run.py <ID> [--tier quick|thorough] [--replay FILE] [--jobs N]"""
import argparse
import json
import os
import sys

HERE = os.path.dirname(os.path.abspath(__file__))
VERIF = os.path.dirname(HERE)
REPO = os.environ.get("GCMPY_REPO", "/repo")


def main():
    ap = argparse.ArgumentParser()
    ap.add_argument("id")
    ap.add_argument("--tier", default=os.environ.get("VERIF_TIER", "quick"))
    ap.add_argument("--replay")
    ap.add_argument("--jobs", type=int, default=0)
    a = ap.parse_args()
    tier = a.tier if a.tier in ("quick", "thorough") else "quick"
    try:
        seed = int(os.environ.get("VERIF_SEED", "0"))
    except ValueError:
        seed = 0
    os.environ["GCMPY_VERIF"] = "1"
    # the code under test is /repo's working tree, imported from source on every run
    sys.path[:] = [p for p in sys.path if os.path.abspath(p or ".") not in (HERE,)]
    sys.path.insert(0, VERIF)
    sys.path.insert(0, REPO)
    sys.dont_write_bytecode = True
    from mc import engine
    engine.install()  # before gcmpy is imported
    try:
        import gcmpy  # noqa: F401
        if not os.path.abspath(gcmpy.__file__).startswith(os.path.abspath(REPO) + os.sep):
            print(f"INFRASTRUCTURE-ERROR gcmpy imported from {gcmpy.__file__}, not {REPO}")
            return 2
    except BaseException as e:
        print(f"INFRASTRUCTURE-ERROR cannot import gcmpy from {REPO}: {type(e).__name__}: {e}")
        return 2
    from mc import framework
    modname = f"mc.props.{a.id.lower()}"
    if a.replay:
        import importlib
        mod = importlib.import_module(modname)
        with open(a.replay) as f:
            v = json.load(f)
        return mod.replay(v)
    return framework.run_check(modname, tier, seed, a.jobs or None)


if __name__ == "__main__":
    sys.exit(main())
