"""C06 - manual, empirical, marginal and function loaders yield the documented law (direct and dispatched)."""
import itertools
from fractions import Fraction

from mc import engine
from mc.framework import Result

ID = "C06"
LEVEL = "model_checking"
BATCH = 20
RULE = ("exhaustive input grids for the four loaders, each built directly and through load_joint_degree, compared "
        "value by value with the law computed from the definition; the marginal loader's sampling mode is explored "
        "over every resolution of its weighted draws (n_samples 1..2/3) and the exact expectation of every table "
        "entry over all RNG resolutions is compared with the normalised product law; non-trivial = instance with "
        ">= 2 keys in the expected law")
BOUNDS = {"quick": "manual: key sets of size<=3 over {0,1,2}^t, t<=2; empirical: sequences of length<=3 (t=1: <=4); "
                   "marginal/function: t<=2, bounds 0<=kmin<kmax<=3, 4 marginal kinds, 3 joint functions; "
                   "sampling n_samples in {1,2}",
          "thorough": "empirical length<=4 for t=2; marginal sampling n_samples up to 3; t=3 direct boxes"}
ASSUMPTIONS = ["real-valued inputs are covered only on the stated grids",
               "a per-topology degree range [kmin,kmax) or [kmin,kmax] is accepted (the property says 'inside the "
               "given bounds'; direct mode uses the half-open and sampling mode the closed range)",
               "sampling mode: the checkable core of 'in the limit of many samples' is unbiasedness for every n"]
TOL = 1e-12


_MARG = {}


def marg(kind):
    """The SAME callable object for the same kind (two topologies may legitimately share one marginal function)."""
    if kind not in _MARG:
        _MARG[kind] = _marg(kind)
    return _MARG[kind]


def _marg(kind):
    if kind == "k+1":
        return lambda k: k + 1
    if kind == "2^-k":
        return lambda k: 2.0 ** (-k)
    if kind == "const":
        return lambda k: 0.25
    if kind == "geo":
        # over k = 0..20 this sums to 1 - 2^-21: almost, but not, normalised already
        return lambda k: 2.0 ** (-(k + 1))
    if kind == "np":
        import numpy as np
        return lambda k: np.float64(1.0) / np.float64(k + 2)
    if kind == "table":
        tab = {0: Fraction(1, 7), 1: Fraction(3, 7), 2: Fraction(2, 7), 3: Fraction(1, 7), 4: Fraction(1, 14)}
        return lambda k: tab[k]
    raise KeyError(kind)


def joint(kind):
    if kind == "sum+1":
        return lambda jd: sum(jd) + 1
    if kind == "prod":
        def f(jd):
            p = 1
            for k in jd:
                p *= (k + 1)
            return Fraction(p, 100)
        return f
    if kind == "table":
        return lambda jd: 1.0 / (1 + sum((i + 1) * k for i, k in enumerate(jd)))
    raise KeyError(kind)


BOUNDS1 = [(a, b) for a in range(0, 4) for b in range(a + 1, 4)]


def instances(tier, seed):
    # manual
    for t in (1, 2):
        keys = list(itertools.product((0, 1, 2), repeat=t))
        for k in range(1, 4):
            for ks in itertools.combinations(keys, k):
                for ws in {(1,) * k, tuple([2, 1, 3][:k])}:
                    yield {"loader": "manual", "keys": [list(x) for x in ks], "weights": list(ws), "t": t}
    # empirical
    for t in (1, 2):
        rows = list(itertools.product((0, 1, 2), repeat=t))
        maxlen = 4 if (t == 1 or tier == "thorough") else 3
        for L in range(1, maxlen + 1):
            seqs = list(itertools.product(rows, repeat=L))
            for i in range(0, len(seqs), 200):
                yield {"loader": "empirical", "t": t, "seqs": [[list(r) for r in s] for s in seqs[i:i + 200]]}
    # marginal + function
    ts = (1, 2, 3) if tier == "thorough" else (1, 2)
    for t in ts:
        kinds = ["k+1", "2^-k", "const", "table", "np"] if t < 3 else ["k+1", "table"]
        bset = BOUNDS1 if t < 3 else [(0, 2), (1, 3), (1, 2)]
        for bounds in itertools.product(bset, repeat=t):
            for fk in itertools.product(kinds, repeat=t):
                yield {"loader": "marginal", "t": t, "bounds": [list(b) for b in bounds], "fk": list(fk),
                       "mode": "direct"}
                if t <= 2:
                    for n in (1, 2, 3):
                        size = 1
                        for a, b in bounds:
                            size *= (b - a + 1)
                        if size ** n <= (5000 if tier == "thorough" else (600 if n == 3 else 5000)):
                            yield {"loader": "marginal", "t": t, "bounds": [list(b) for b in bounds],
                                   "fk": list(fk), "mode": "sampling", "n": n}
            for jk in ("sum+1", "prod", "table"):
                yield {"loader": "function", "t": t, "bounds": [list(b) for b in bounds], "jk": jk}
    # degenerate and large boxes
    for bounds in ([(3, 3)], [(0, 0), (0, 1)], [(2, 2), (1, 1)]):
        yield {"loader": "function", "t": len(bounds), "bounds": [list(b) for b in bounds], "jk": "sum+1"}
    yield {"loader": "marginal", "t": 1, "bounds": [[299, 301]], "fk": ["const"], "mode": "sampling", "n": 2}
    # marginals whose raw product table sums to 1 - 5e-7 / 1 - 1e-6 (normalisation must still happen)
    yield {"loader": "marginal", "t": 1, "bounds": [[0, 21]], "fk": ["geo"], "mode": "direct"}
    yield {"loader": "marginal", "t": 2, "bounds": [[0, 21], [0, 21]], "fk": ["geo", "geo"], "mode": "direct"}
    yield {"loader": "marginal", "t": 2, "bounds": [[255, 257], [0, 1]], "fk": ["const", "k+1"], "mode": "sampling",
           "n": 1}


def build(loader, params, how):
    from gcmpy.joint_degree.joint_degree_distribution import JointDegreeDistribution
    from gcmpy.joint_degree.joint_degree_loaders.joint_degree_manual import JointDegreeManual
    from gcmpy.joint_degree.joint_degree_loaders.joint_degree_empirical import JointDegreeEmpirical
    from gcmpy.joint_degree.joint_degree_loaders.joint_degree_marginal import JointDegreeMarginal
    from gcmpy.joint_degree.joint_degree_loaders.joint_degree_function import JointDegreeFunction
    from gcmpy.names.joint_degree_names import JointDegreeNames as JN
    cls = {"manual": JointDegreeManual, "empirical": JointDegreeEmpirical, "marginal": JointDegreeMarginal,
           "function": JointDegreeFunction}[loader]
    if how == "direct":
        return cls(dict(params))
    p = dict(params)
    p[JN.JOINT_DEGREE_TYPE] = loader
    obj = JointDegreeDistribution.load_joint_degree(p)
    if type(obj) is not cls:
        raise AssertionError(f"dispatch returned {type(obj).__name__}")
    return obj


def close(a, b):
    return abs(float(a) - float(b)) <= TOL * max(1.0, abs(float(b)))


def compare(jdd, want, what):
    if jdd is None:
        return (f"C06:{what}:no-table", "loader exposes no distribution")
    try:
        got_keys = set(jdd.keys())
    except Exception as e:
        return (f"C06:{what}:no-table", f"jdd is {jdd!r} ({e})")
    if got_keys != set(want):
        return (f"C06:{what}:support", f"support {sorted(got_keys)} != expected {sorted(want)}")
    for k in want:
        if not close(jdd[k], want[k]) or float(jdd[k]) < 0:
            return (f"C06:{what}:value", f"P{k} = {jdd[k]!r}, expected {want[k]!r}")
    return None


def marginal_laws(bounds, fk):
    """Accepted laws: per topology the range is [kmin,kmax) or [kmin,kmax]; returns list of dicts."""
    fs = [marg(k) for k in fk]
    out = []
    for closed in itertools.product((False, True), repeat=len(bounds)):
        ranges = [range(a, b + (1 if c else 0)) for (a, b), c in zip(bounds, closed)]
        law = {}
        for key in itertools.product(*ranges):
            p = 1.0
            for i, k in enumerate(key):
                p *= float(fs[i](k))
            law[key] = p
        tot = sum(law.values())
        out.append({k: v / tot for k, v in law.items()})
    return out


def run_instance(inst, tier):
    from gcmpy.names.joint_degree_names import JointDegreeNames as JN
    res = Result()
    ld = inst["loader"]
    t = inst["t"]
    sizes = [2, 3, 4][:t]

    def viol(bad, how, **extra):
        res.violation(bad[0], f"{ld} loader ({how}) {({k: v for k, v in inst.items() if k != 'seqs'})} "
                      f"{extra if extra else ''}: {bad[1]}", {k: v for k, v in inst.items() if k != "seqs"},
                      how=how, **extra)

    if ld == "manual":
        keys = [tuple(k) for k in inst["keys"]]
        tot = sum(inst["weights"])
        for form in ("int", "float"):
            given = {k: (w if form == "int" else w / tot) for k, w in zip(keys, inst["weights"])}
            for how in ("direct", "dispatch"):
                res.executions += 1
                res.states += 1
                res.transitions += 1
                try:
                    obj = build("manual", {JN.JDD: dict(given), JN.MOTIF_SIZES: sizes}, how)
                    bad = compare(obj.jdd, given, "manual")
                    if bad is None and list(obj.motif_sizes) != sizes:
                        bad = ("C06:manual:motif-sizes", f"motif_sizes {obj.motif_sizes}")
                except Exception as e:
                    bad = ("C06:manual:raises", repr(e))
                if bad:
                    viol(bad, how, form=form)
        if len(keys) >= 2:
            res.nontrivial.add(("manual", tuple(keys), tuple(inst["weights"])))
        res.flags.add("manual")
    elif ld == "empirical":
        for seq in inst["seqs"]:
            seq = [tuple(r) for r in seq]
            want = {}
            for r in seq:
                want[r] = want.get(r, 0) + Fraction(1, len(seq))
            for how in ("direct", "dispatch"):
                res.executions += 1
                res.states += 1
                res.transitions += 1
                try:
                    obj = build("empirical", {JN.JDS: list(seq), JN.MOTIF_SIZES: sizes}, how)
                    bad = compare(obj.jdd, want, "empirical")
                except Exception as e:
                    bad = ("C06:empirical:raises", repr(e))
                if bad:
                    viol(bad, how, seq=seq)
                    return res
            if len(want) >= 2:
                res.nontrivial.add(("empirical", tuple(seq)))
        res.flags.add("empirical")
        if not res.samples and t == 2:
            res.samples.append({"loader": "empirical", "sequence": inst["seqs"][-1]})
    elif ld == "function":
        bounds = [tuple(b) for b in inst["bounds"]]
        f = joint(inst["jk"])
        want = {key: f(key) for key in itertools.product(*[range(a, b + 1) for a, b in bounds])}
        for how in ("direct", "dispatch"):
            res.executions += 1
            res.states += 1
            res.transitions += 1
            try:
                obj = build("function", {JN.FP: f, JN.MOTIF_SIZES: sizes, JN.LOW_HIGH_DEGREE_BOUND: bounds}, how)
                bad = compare(obj.jdd, want, "function")
            except Exception as e:
                bad = ("C06:function:raises", repr(e))
            if bad:
                viol(bad, how)
        res.nontrivial.add(("function", tuple(bounds), inst["jk"]))
        res.flags.add("function")
    elif ld == "marginal" and inst["mode"] == "direct":
        bounds = [tuple(b) for b in inst["bounds"]]
        laws = marginal_laws(bounds, inst["fk"])
        # the direct (analytical) mode is the default: it must be used when use_sampling is absent or False, whether
        # or not a sample size is also given
        extras = [{}, {JN.N_SAMPLES: 3}, {JN.USE_SAMPLING: False, JN.N_SAMPLES: 2}]
        for how, extra in [(h, x) for h in ("direct", "dispatch") for x in extras]:
            res.executions += 1
            res.states += 1
            res.transitions += 1
            try:
                params = {JN.ARR_FP: [marg(k) for k in inst["fk"]], JN.MOTIF_SIZES: sizes,
                          JN.LOW_HIGH_DEGREE_BOUND: bounds}
                params.update(extra)
                obj = build("marginal", params, how)
                bads = [compare(obj.jdd, law, "marginal-direct") for law in laws]
                bad = None if any(b is None for b in bads) else bads[0]
                if bad is None and abs(sum(float(v) for v in obj.jdd.values()) - 1) > 1e-9:
                    bad = ("C06:marginal-direct:not-normalised", f"sums to {sum(obj.jdd.values())}")
            except Exception as e:
                bad = ("C06:marginal-direct:raises", repr(e))
            if bad:
                viol(bad, how, extra_params=sorted(str(k) for k in extra))
        res.nontrivial.add(("marginal", tuple(bounds), tuple(inst["fk"])))
        res.flags.add("marginal-direct")
        if not res.samples and t == 2:
            res.samples.append({"loader": "marginal", "bounds": bounds, "marginals": inst["fk"]})
    else:  # marginal, sampling mode, explored over all RNG resolutions
        bounds = [tuple(b) for b in inst["bounds"]]
        n = inst["n"]
        laws = marginal_laws(bounds, inst["fk"])
        hows = ("direct", "dispatch") if n == 1 else ("direct",)
        for how in hows:
            expect = {}
            first = []

            def body():
                obj = build("marginal", {JN.ARR_FP: [marg(k) for k in inst["fk"]], JN.MOTIF_SIZES: sizes,
                                         JN.LOW_HIGH_DEGREE_BOUND: bounds, JN.USE_SAMPLING: True,
                                         JN.N_SAMPLES: n}, how)
                return dict(obj.jdd)

            def on_leaf(leaf):
                if leaf.exception is not None:
                    if not first:
                        first.append(("C06:marginal-sampling:raises", repr(leaf.exception)))
                    return
                jdd = leaf.outcome
                tot = 0.0
                for k, v in jdd.items():
                    ok = (isinstance(k, tuple) and len(k) == t
                          and all(isinstance(x, int) and a <= x <= b for x, (a, b) in zip(k, bounds)))
                    if (not ok or v < 0) and not first:
                        first.append(("C06:marginal-sampling:support", f"table {jdd} leaves the box {bounds}"))
                    tot += v
                    expect[k] = expect.get(k, 0.0) + float(leaf.prob) * v
                if abs(tot - 1) > 1e-9 and not first:
                    first.append(("C06:marginal-sampling:not-normalised", f"table {jdd} sums to {tot}"))
            st = engine.explore(body, on_leaf, max_points=100, recheck_every=11, max_leaves=2_000_000)
            res.executions += st.leaves
            res.states += st.leaves
            res.transitions += st.points + st.leaves
            res.revalidated += st.rechecked
            if st.cut_leaves or st.mass != 1:
                raise engine.InfraError("sampling exploration incomplete")
            if st.points == 0:
                raise engine.InfraError("sampling mode made no controlled random call")
            bad = first[0] if first else None
            if bad is None:
                bads = [compare({k: v for k, v in expect.items() if v > 1e-15}, {k: v for k, v in law.items()
                                                                                   if v > 1e-15},
                                "marginal-sampling-expectation") for law in laws]
                bad = None if any(b is None for b in bads) else bads[-1]
            if bad:
                viol(bad, how)
            res.flags.add("marginal-sampling")
            res.nontrivial.add(("sampling", tuple(bounds), tuple(inst["fk"]), n, how))
    return res


def finalize(agg, tier):
    if agg.violations:
        return []
    need = ["manual", "empirical", "function", "marginal-direct", "marginal-sampling"]
    return [f"vacuous exploration: loader {f} never exercised" for f in need if f not in agg.flags]


def replay(v):
    inst = v["instance"]
    if "seq" in v:
        inst = dict(inst, seqs=[v["seq"]])
    r = run_instance(inst, v.get("tier", "quick"))
    for x in r.violations:
        print(x["key"], x["message"][:600])
    return 1 if r.violations else 0
