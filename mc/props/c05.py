"""C05 - sampled joint degree sequences are handshake-consistent minimal perturbations of weighted draws."""
import itertools
from fractions import Fraction

from mc import engine
from mc.framework import Result

ID = "C05"
LEVEL = "model_checking"
BATCH = 6
RULE = ("for every distribution in the box (key sets over {0,1,2}^t, integer / Fraction-normalised / float-normalised "
        "weights), every motif-size vector over {1,2,3}^t and every N, stateless DFS over every resolution of the "
        "weighted draw (N choice points with probability w/sum w) and of every patch position (randrange) of the "
        "real sample_jds_from_jdd; exact leaf probabilities give the marginal law of every drawn position; "
        "non-trivial = instance in which some leaf needed a patch")
BOUNDS = {"quick": "t=1: all non-empty key sets of {0,1,2} and key sets of size <= 2 of {0,3,4,5} (motif sizes up to 4); t=2: key sets of size <= 3 of {0,1,2}^2; N 1..3",
          "thorough": "t=1,2 key sets of size <= 3; t=3 key sets of size <= 2 over {0,1}^3; N 1..4"}
ASSUMPTIONS = ["the N weighted draws are observed at the random.choices seam (or, failing that, as the argument of "
               "handshaking_lemma); a refactoring that draws differently makes the check report an infrastructure "
               "error, not a verdict",
               "patch positions are not required to be uniform (the property does not say so)"]


def key_sets(t, maxsize, vals=(0, 1, 2)):
    keys = list(itertools.product(vals, repeat=t))
    for k in range(1, maxsize + 1):
        yield from itertools.combinations(keys, k)


def weight_patterns(k):
    pats = [(1,) * k]
    if k >= 1:
        pats.append(tuple([2, 1, 3][:k]))
    if k >= 2:
        pats.append(tuple([1, 3, 2][:k]))
    return sorted(set(pats))


def instances(tier, seed):
    plan = [(1, 3, (0, 1, 2)), (1, 2, (0, 3, 4, 5))]
    if tier == "quick":
        plan.append((2, 3, (0, 1, 2)))
        maxN = 3
    else:
        plan += [(2, 3, (0, 1, 2)), (3, 2, (0, 1))]
        maxN = 4
    for t, maxsize, vals in plan:
        for ks in key_sets(t, maxsize, vals):
            for ws in weight_patterns(len(ks)):
                for form in ("int", "fraction", "float", "tiny", "lopsided", "tiny-uneven"):
                    if form != "int" and len(ks) == 1 and ws != (1,):
                        continue
                    if form in ("tiny", "lopsided") and (t > 1 or len(ks) != 2 or ws != (1, 1)):
                        continue
                    if form == "tiny-uneven" and (t > 1 or len(ks) != 2 or ws != (2, 1)):
                        continue
                    yield {"keys": [list(k) for k in ks], "weights": list(ws), "form": form, "t": t, "maxN": maxN}
                    if form == "int" and len(ks) >= 2 and len(set(ws)) > 1:
                        # the same distribution inserted in the opposite (non-sorted) order
                        yield {"keys": [list(k) for k in reversed(ks)], "weights": list(reversed(ws)), "form": form,
                               "t": t, "maxN": min(maxN, 2)}


def weights_of(inst):
    if inst["form"] == "tiny":
        return [w * 1e-13 for w in inst["weights"]]
    if inst["form"] == "tiny-uneven":
        # unnormalised weights below the float epsilon (1e-16 : 5e-16 : ...): still proportional weights
        return [(1 + 4 * i) * 1e-16 for i in range(len(inst["weights"]))]
    if inst["form"] == "lopsided":
        return [1 - 1e-13] + [1e-13 / max(1, len(inst["weights"]) - 1)] * (len(inst["weights"]) - 1)
    ws = inst["weights"]
    tot = sum(ws)
    if inst["form"] == "int":
        return list(ws)
    if inst["form"] == "fraction":
        return [Fraction(w, tot) for w in ws]
    return [w / tot for w in ws]


def make_body(keys, weights, sizes, N, rec):
    from gcmpy.joint_degree.joint_degree_loaders.joint_degree_manual import JointDegreeManual
    from gcmpy.names.joint_degree_names import JointDegreeNames as JN

    def body():
        jdd = dict(zip(keys, weights))
        obj = JointDegreeManual({JN.JDD: jdd, JN.MOTIF_SIZES: list(sizes)})
        orig = obj.handshaking_lemma

        def spy(jds):
            rec["drawn"] = [x for x in jds]
            return orig(jds)
        obj.handshaking_lemma = spy
        rec.pop("drawn", None)
        return obj.sample_jds_from_jdd(N)
    return body


def check_leaf(out, drawn, keys, sizes, N):
    t = len(sizes)
    if not isinstance(out, list) or len(out) != N:
        return ("C05:length", f"returned {out!r}, expected a list of {N} joint degrees")
    for e in out:
        if not isinstance(e, tuple):
            return ("C05:entry-not-tuple", f"entry {e!r} is a {type(e).__name__}, not a hashable tuple "
                    f"(returned {out})")
        if len(e) != t or any((not isinstance(x, int)) or isinstance(x, bool) or x < 0 for x in e):
            return ("C05:entry-malformed", f"entry {e!r} is not a tuple of {t} non-negative ints")
    for i in range(t):
        if sum(e[i] for e in out) % sizes[i]:
            return ("C05:not-divisible", f"column {i} sums to {sum(e[i] for e in out)}, motif size {sizes[i]} "
                    f"(returned {out})")
    if drawn is None:
        return None
    if len(drawn) != N or any(tuple(d) not in keys for d in drawn):
        return ("C05:draws", f"drawn {drawn} are not {N} keys of the distribution")
    for e, d in zip(out, drawn):
        if any(a < b for a, b in zip(e, d)):
            return ("C05:stub-removed", f"entry {e} is below the drawn key {tuple(d)} (drawn {drawn}, returned {out})")
    for i in range(t):
        added = sum(e[i] - d[i] for e, d in zip(out, drawn))
        need = (-sum(d[i] for d in drawn)) % sizes[i]
        if added != need:
            return ("C05:not-minimal", f"column {i}: {added} stubs added, the minimum achieving divisibility by "
                    f"{sizes[i]} is {need} (drawn {drawn}, returned {out})")
    return None


def downstream(out, sizes):
    """The returned entries must be usable wherever the library accepts a joint degree sequence."""
    from gcmpy.joint_degree.joint_degree_loaders.joint_degree_empirical import JointDegreeEmpirical
    from gcmpy.names.joint_degree_names import JointDegreeNames as JN
    from gcmpy.names.gcm_algorithm_names import GCMAlgorithmNames as GN
    from gcmpy.gcm_algorithm.gcm_algorithm_fast import GCMAlgorithmFast
    from gcmpy.motif_generators.clique_motif import clique_motif
    try:
        emp = JointDegreeEmpirical({JN.MOTIF_SIZES: list(sizes), JN.JDS: list(out)})
        if abs(sum(emp.jdd.values()) - 1) > 1e-12:
            return ("C05:downstream-empirical", f"empirical loader built {emp.jdd} from {out}")
    except Exception as e:
        return ("C05:downstream-empirical", f"JointDegreeEmpirical rejects the sampled sequence {out}: {e!r}")
    try:
        params = {GN.MOTIF_SIZES: list(sizes), GN.BUILD_FUNCTIONS: [clique_motif] * len(sizes),
                  GN.EDGE_NAMES: [f"{s}-clique-{i}" for i, s in enumerate(sizes)]}
        leaf = engine.execute(lambda: GCMAlgorithmFast(params).random_clustered_graph(list(out)), max_points=500)
        if leaf.exception is not None:
            raise leaf.exception
    except Exception as e:
        return ("C05:downstream-generator", f"GCMAlgorithmFast rejects the sampled sequence {out}: {e!r}")
    return None


def run_one(res, keys, weights, sizes, N, inst_desc):
    rec = {}
    body = make_body(keys, weights, sizes, N, rec)
    tot = sum(Fraction(w) for w in weights)
    want = [Fraction(w) / tot for w in weights]
    marg = [[Fraction(0)] * len(keys) for _ in range(N)]
    first = []
    patched = [False]
    outs = set()

    def on_leaf(leaf):
        if leaf.exception is not None:
            if not first:
                first.append((("C05:exception", f"sample_jds_from_jdd raised {leaf.exception!r}"), leaf))
            return
        idx = None
        for c in leaf.run.calls:
            if c[0] == "choices" and len(c[1]) == N:
                idx = c[1]
                break
        drawn = [keys[i] for i in idx] if idx is not None else rec.get("drawn")
        if drawn is None:
            raise engine.InfraError("cannot observe the weighted draws (no random.choices call, no handshaking_lemma)")
        drawn = [tuple(d) for d in drawn]
        if idx is None:
            idx = [keys.index(d) for d in drawn]
        for pos, k in enumerate(idx):
            marg[pos][k] += leaf.prob
        out = leaf.outcome
        bad = check_leaf(out, drawn, keys, sizes, N)
        if isinstance(out, list) and [tuple(e) if isinstance(e, (list, tuple)) else e for e in out] != drawn:
            patched[0] = True
        if bad is None and tuple(out) not in outs:
            outs.add(tuple(out))
            bad = downstream(out, sizes)
        if bad and not first:
            first.append((bad, leaf))
    st = engine.explore(body, on_leaf, max_points=200, recheck_every=9, max_leaves=400_000)
    res.executions += st.leaves
    res.states += st.leaves
    res.transitions += st.points + st.leaves
    res.revalidated += st.rechecked
    if st.cut_leaves or st.mass != 1:
        raise engine.InfraError(f"incomplete exploration: mass {st.mass}, cut {st.cut_leaves}")
    if patched[0]:
        res.nontrivial.add((tuple(keys), tuple(map(str, weights)), tuple(sizes), N))
        res.flags.add("patched")
    if any(s == 1 for s in sizes):
        res.flags.add("size-1")
    desc = dict(inst_desc, sizes=list(sizes), N=N)
    if first:
        (key, msg), leaf = first[0]
        res.violation(key, f"keys={keys} weights={[str(w) for w in weights]} sizes={list(sizes)} N={N} "
                      f"choices={leaf.choices}: {msg}", desc, choices=leaf.choices,
                      calls=leaf.run.resolved_calls())
        return
    for pos in range(N):
        if marg[pos] != want:
            res.violation("C05:draw-law", f"keys={keys} weights={[str(w) for w in weights]} N={N}: position {pos} "
                          f"is drawn with law {[str(p) for p in marg[pos]]}, weights prescribe "
                          f"{[str(p) for p in want]}", desc, choices=[])
            return


def check_inplace_change(res, inst):
    """A short history on ONE loader: sample, change the distribution dict in place, sample again (N = 1): the second
    draw must follow the distribution the loader holds at that time."""
    from gcmpy.joint_degree.joint_degree_loaders.joint_degree_manual import JointDegreeManual
    from gcmpy.names.joint_degree_names import JointDegreeNames as JN
    keys = [tuple(k) for k in inst["keys"]]
    t = inst["t"]
    new_key = tuple([7] * t)
    law = {}

    def body():
        obj = JointDegreeManual({JN.JDD: dict(zip(keys, [1] * len(keys))), JN.MOTIF_SIZES: [1] * t})
        obj.sample_jds_from_jdd(1)
        # same dict object and same number of keys: the last key is replaced by a new one, weights 1 : 0.. : 3
        for k in list(obj.jdd):
            obj.jdd[k] = 0 if k != keys[0] else 1
        del obj.jdd[keys[-1]]
        obj.jdd[new_key] = 3
        return obj.sample_jds_from_jdd(1)

    def on_leaf(leaf):
        key = ("EXC", repr(leaf.exception)) if leaf.exception is not None else tuple(leaf.outcome[0])
        law[key] = law.get(key, 0) + leaf.prob
    st = engine.explore(body, on_leaf, max_points=20)
    res.executions += st.leaves
    res.transitions += st.points
    want = {keys[0]: Fraction(1, 4), new_key: Fraction(3, 4)}
    if law != want:
        res.violation("C05:history:stale-distribution", f"keys={keys}: after the distribution was changed in place to "
                      f"{{{keys[0]}: 1, {new_key}: 3, others: 0}} one draw has law "
                      f"{({str(k): str(v) for k, v in law.items()})}", {k: inst[k] for k in ("keys", "t")})
    res.flags.add("inplace-history")
    # the caller's motif-size list edited in place between two samplings (1 -> 2 and 2 -> 1): the second result must
    # be divisible by the sizes the loader holds at that time, for every outcome of the draws
    for first, second in ((1, 2), (2, 1), (1, 3)):
        bad = []

        def body2():
            sizes = [first] * t
            obj = JointDegreeManual({JN.JDD: dict(zip(keys, [1] * len(keys))), JN.MOTIF_SIZES: sizes})
            obj.sample_jds_from_jdd(1)
            sizes[:] = [second] * t
            return obj.sample_jds_from_jdd(1), list(obj.motif_sizes) if hasattr(obj, "motif_sizes") else None

        def on_leaf2(leaf):
            if leaf.exception is not None:
                bad.append(f"raised {leaf.exception!r}")
                return
            out, held = leaf.outcome
            if held is not None and held != [second] * t:
                return   # the loader keeps its own copy of the sizes: the in-place edit does not concern it
            for i in range(t):
                if sum(r[i] for r in out) % second:
                    bad.append(f"returned {out}: column {i} is not divisible by {second}")
        st = engine.explore(body2, on_leaf2, max_points=30, track_prob=False)
        res.executions += st.leaves
        res.transitions += st.points
        if bad:
            res.violation("C05:history:stale-motif-sizes", f"keys={keys}: motif sizes edited in place from {first} to "
                          f"{second} between two samplings: {bad[0]}", {k: inst[k] for k in ("keys", "t")})
            break


def run_instance(inst, tier):
    res = Result()
    if inst["form"] == "int" and inst["weights"] == [1] * len(inst["keys"]) and len(inst["keys"]) >= 2:
        check_inplace_change(res, inst)
        if res.violations:
            return res
    keys = [tuple(k) for k in inst["keys"]]
    weights = weights_of(inst)
    t = inst["t"]
    size_values = (1, 2, 3, 4) if (t == 1 and max(max(k) for k in keys) >= 3) else (1, 2, 3)
    for sizes in itertools.product(size_values, repeat=t):
        for N in range(1, inst["maxN"] + 1):
            if len(keys) ** N * N ** sum(s - 1 for s in sizes) > 60000:
                res.skipped += 1
                continue
            run_one(res, keys, weights, sizes, N, {k: inst[k] for k in ("keys", "weights", "form", "t")})
            if res.violations:
                return res
    if len(keys) == 2 and t == 2 and not res.samples:
        res.samples.append({"keys": keys, "weights": [str(w) for w in weights], "sizes": "all of {1,2,3}^t",
                            "N": f"1..{inst['maxN']}"})
    return res


def finalize(agg, tier):
    if agg.violations:
        return []
    return [f"vacuous exploration: {f} never seen" for f in ("patched", "size-1") if f not in agg.flags]


def replay(v):
    inst = v["instance"]
    keys = [tuple(k) for k in inst["keys"]]
    weights = weights_of(inst)
    sizes, N = inst["sizes"], inst["N"]
    rec = {}
    leaf = engine.execute_plain(make_body(keys, weights, sizes, N, rec), v["choices"], max_points=200)
    print("keys", keys, "weights", weights, "sizes", sizes, "N", N, "choices", v["choices"])
    print("drawn:", rec.get("drawn"), "returned:", leaf.outcome, "exception:", leaf.exception)
    if leaf.exception is not None:
        return 1
    bad = check_leaf(leaf.outcome, None if rec.get("drawn") is None else [tuple(d) for d in rec["drawn"]],
                     keys, sizes, N) or downstream(leaf.outcome, sizes)
    print("oracle:", bad)
    return 1 if bad else 0
