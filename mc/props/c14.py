"""C14 - degree-distribution algebra is consistent and invertible."""
import itertools
from fractions import Fraction

from mc import netgen
from mc.framework import Result
from mc.props import c13

ID = "C14"
LEVEL = "model_checking"
BATCH = 1
RULE = ("exhaustive grids: joint degree distributions with support = every non-empty subset of size <= 3 of "
        "{0,1,2}^t (t=1,2), {0,1}^3 and {0,1}^4 minus 0, 3 weight patterns plus patterns with one key of relative weight 2^-34, every list of topology names from a "
        "catalogue of 5 naming schemes; every identity (forward excess formula, inversion, row sums, network "
        "histogram, mean) is evaluated from its definition; network-derived matrices over every clean network of "
        "the C13 box; non-trivial = distribution with >= 2 keys / network with >= 2 motifs")
BOUNDS = {"quick": "support size <= 3; networks: c2, c3, c2+c3 N<=5, blue+red, blue+c3+red, c2+cyc4 N<=4",
          "thorough": "support size <= 4 for t<=2; networks of the thorough C13 plan"}
ASSUMPTIONS = ["real-valued weights only on the stated grid; tolerance 1e-12",
               "row sums = excess distribution from the joint degree histogram is claimed for motifs in which every "
               "member has the same number of incident motif edges (cliques, cycles)"]
TOL = 1e-12

NAME_SCHEMES = [
    ["2-clique", "3-clique", "4-clique", "5-clique"],
    ["a", "b", "c", "d"],
    ["2-clique-blue", "3-clique", "2-clique-red", "4-cycle"],
    ["3-clique", "2-clique", "5-clique", "4-clique"],
    ["tri", "2-clique", "sq", "pent"],
    ["2-clique", "2-clique-red", "3-clique", "2-clique-x"],   # the first name is a prefix of others
]


def supports(tier):
    maxk = 3
    for t, vals in ((1, (0, 1, 2)), (2, (0, 1, 2)), (3, (0, 1)), (4, (0, 1))):
        keys = list(itertools.product(vals, repeat=t))
        if t >= 3:
            keys = [k for k in keys if any(k)]
        mk = maxk + (1 if (tier == "thorough" and t <= 2) else 0)
        for size in range(1, mk + 1):
            for ks in itertools.combinations(keys, size):
                yield t, ks


BIG_KEYS = {
    1: [(0,), (3,), (5,), (12,)],
    2: [(0, 3), (3, 1), (2, 2), (5, 0), (1, 4), (10, 1), (1, 12)],
    3: [(3, 0, 1), (1, 2, 2), (0, 4, 1), (2, 2, 0)],
}


def big_supports():
    for t, keys in BIG_KEYS.items():
        for size in (2, 3, 4):
            for ks in itertools.combinations(keys, size):
                yield t, ks


def instances(tier, seed):
    yield {"kind": "hand"}
    batch = list(big_supports())
    yield {"kind": "jdd", "items": batch}
    batch = []
    for t, ks in supports(tier):
        batch.append((t, ks))
        if len(batch) >= 60:
            yield {"kind": "jdd", "items": batch}
            batch = []
    if batch:
        yield {"kind": "jdd", "items": batch}
    for inst in c13.instances(tier, seed):
        inst["kind"] = "net"
        yield inst


def weight_patterns(k):
    pats = {(1,) * k, tuple([2, 1, 3, 1][:k]), tuple([1, 3, 2, 2][:k])}
    if 2 <= k <= 3:
        # one joint degree is rare (relative weight 2^-34 ~ 6e-11), each position in turn: the laws have no lower
        # bound on a topology's mean degree or on the mass of the joint degree that is positive in every topology
        for j in range(k):
            pats.add(tuple(1 if i == j else 2 ** 34 + i for i in range(k)))
        # and rarer still (2^-46 ~ 1.4e-14), last position only
        pats.add(tuple(1 if i == k - 1 else 2 ** 46 + i for i in range(k)))
    return sorted(pats)


def close(a, b):
    return abs(float(a) - float(b)) <= TOL


def same_dist(got, want):
    if set(got) != set(want):
        return f"keys {sorted(got)} != {sorted(want)}"
    for k in want:
        if not close(got[k], want[k]):
            return f"value at {k}: {got[k]} != {want[k]}"
    return None


def check_jdd(res, t, keys, ws):
    from gcmpy.tools.joint_excess_from_jdd import JointExcessfromJDD
    from gcmpy.tools.joint_degree_from_excess import JointDegreeFromExcess
    from gcmpy.tools.average_joint_degree_from_jdd import AverageJointDegreeFromJDD
    tot = sum(ws)
    P = {k: Fraction(w, tot) for k, w in zip(keys, ws)}
    jdd = {k: float(p) for k, p in P.items()}
    desc = {"t": t, "keys": [list(k) for k in keys], "weights": list(ws)}
    res.states += 1
    # mean
    res.executions += 1
    res.transitions += 1
    try:
        avg = AverageJointDegreeFromJDD.get_average_joint_degrees(dict(jdd))
        want_avg = [sum(k[i] * p for k, p in P.items()) for i in range(t)]
        if len(avg) != t or any(not close(a, w) for a, w in zip(avg, want_avg)):
            res.violation("C14:mean", f"jdd={jdd}: mean joint degree {avg} != {[str(w) for w in want_avg]}", desc)
            return
    except Exception as e:
        res.violation("C14:mean-raises", f"jdd={jdd}: {e!r}", desc)
        return
    # forward formula
    res.executions += 1
    res.transitions += 1
    want_q = []
    for i in range(t):
        q = {}
        for k, p in P.items():
            if k[i] > 0:
                kk = tuple(x - (1 if j == i else 0) for j, x in enumerate(k))
                q[kk] = q.get(kk, 0) + k[i] * p / want_avg[i]
        want_q.append(q)
    try:
        qks = JointExcessfromJDD.get_joint_excess_distributions(dict(jdd))
    except Exception as e:
        res.violation("C14:forward-raises", f"jdd={jdd}: {e!r}", desc)
        return
    if len(qks) != t:
        res.violation("C14:forward", f"jdd={jdd}: {len(qks)} excess distributions for {t} topologies", desc)
        return
    for i in range(t):
        bad = same_dist(qks[i], want_q[i])
        if bad is None and want_q[i] and not close(sum(qks[i].values()), 1):
            bad = f"sums to {sum(qks[i].values())}"
        if bad:
            res.violation("C14:forward", f"jdd={jdd} topology {i}: excess distribution {qks[i]}: {bad}", desc)
            return
    # inversion for every naming scheme
    if all(any(k[i] > 0 for k in keys) for i in range(t)) and any(all(x > 0 for x in k) for k in keys):
        nz = {k: p for k, p in P.items() if any(k)}
        z = sum(nz.values())
        want_P = {k: p / z for k, p in nz.items()}
        for scheme in NAME_SCHEMES:
            names = scheme[:t]
            res.executions += 1
            res.transitions += 1
            try:
                qd = JointExcessfromJDD.convert_list_qks_to_dict([dict(q) for q in qks], list(names))
                back_list = JointExcessfromJDD.convert_dict_qks_to_list(qd, list(names))
                if back_list != qks:
                    res.violation("C14:list-dict-conversion", f"names={names}: list->dict->list changed the data", desc)
                    return
                got = JointDegreeFromExcess.get_joint_degree_distribution(qd, list(names))
                bad = same_dist(got, want_P)
                if bad is None and t >= 2:
                    # the same dict built in the opposite insertion order (keys, not positions, identify topologies)
                    qd2 = {n: dict(qd[n]) for n in reversed(names)}
                    res.executions += 1
                    bad = same_dist(JointDegreeFromExcess.get_joint_degree_distribution(qd2, list(names)), want_P)
                    if bad:
                        bad = "with the qks dict inserted in reverse order: " + bad
            except BaseException as e:
                bad = f"raised {e!r}"
                if isinstance(e, KeyError):
                    res.violation("C14:inversion-raises-keyerror", f"jdd={jdd} names={names}: inversion {bad}",
                                  dict(desc, names=names))
                    return
            if bad:
                res.violation("C14:inversion", f"jdd={jdd} names={names}: inversion {bad}; expected "
                              f"{({k: str(v) for k, v in want_P.items()})}", dict(desc, names=names))
                return
        res.flags.add("inversion")
        if t >= 3:
            res.flags.add("inversion-3plus")
    if len(keys) >= 2:
        res.nontrivial.add(("jdd", keys, ws))


def check_net(res, tset, N, pl, variant=None):
    from gcmpy.tools.joint_excess_joint_degree import JointExcessJointDegree
    from gcmpy.tools.joint_excess_joint_degree_matrices import JointExcessJointDegreeMatrices
    from gcmpy.tools.joint_excess_from_ejk import JointExcessFromEjk
    from gcmpy.tools.joint_excess_from_jdd import JointExcessfromJDD
    from gcmpy.tools.joint_degree_distribution_from_network import JointDegreeDistributionFromNetwork
    from gcmpy.names.tools_names import ToolsNames as TN
    tops = netgen.TOPOLOGY_SETS[tset]
    names = [t[0] for t in tops]
    net, jds, rows = netgen.build_network(N, tops, pl, relabel=variant)
    desc = {"tset": tset, "N": N, "placement": [[k, list(vs)] for k, vs, _ in pl]}
    res.states += 1
    # network histogram
    res.executions += 1
    res.transitions += 1
    hist = {}
    for jd in jds:
        hist[jd] = hist.get(jd, 0) + Fraction(1, N)
    try:
        got = JointDegreeDistributionFromNetwork.get_joint_degree_distribution(net.G)
        bad = same_dist(got, hist)
    except Exception as e:
        bad = f"raised {e!r}"
    if bad:
        res.violation("C14:network-histogram", f"{tset} N={N} jds={jds}: {bad}", desc)
        return
    want_ejks, want_keys = c13.expected(N, tops, jds, rows)
    # row sums of (a) the matrices the real extractor returns, (b) hand-built matrix objects
    mats = []
    try:
        mats.append(("extracted", JointExcessJointDegree({TN.NETWORK: net.G, TN.EDGE_NAMES: list(names)}).get_ejks()))
    except Exception:
        pass  # extractor failures are C13's business
    mats.append(("hand-built", JointExcessJointDegreeMatrices(
        {TN.EJKS: {n: {k: float(v) for k, v in want_ejks[n].items()} for n in names}, TN.EDGE_NAMES: list(names)})))
    for label, m in mats:
        res.executions += 1
        res.transitions += 1
        try:
            qks = JointExcessFromEjk.get_excess_joint_distributions(m)
        except Exception as e:
            res.violation("C14:row-sums-raises", f"{tset} N={N} rows={rows} ({label}): {e!r}", desc)
            return
        for i, n in enumerate(names):
            want = {}
            for k, v in want_ejks[n].items():
                h = len(k) // 2
                want[k[:h]] = want.get(k[:h], 0) + v
            bad = same_dist(qks.get(n, {}), want)
            if bad:
                res.violation("C14:row-sums", f"{tset} N={N} rows={rows} topology {n} ({label}): {bad}", desc)
                return
            # ... which equals the excess distribution computed from the network's joint degree histogram
            if want:
                fwd = JointExcessfromJDD.get_joint_excess_distributions({k: float(v) for k, v in hist.items()})[i]
                bad = same_dist(qks[n], fwd)
                if bad:
                    res.violation("C14:row-sums-vs-histogram", f"{tset} N={N} rows={rows} topology {n}: row sums "
                                  f"{qks[n]} != excess distribution of the histogram {fwd}: {bad}", desc)
                    return
    if len(pl) >= 2:
        res.nontrivial.add(("net", tset, N, tuple((k, vs) for k, vs, _ in pl)))
    res.flags.add("network")


HAND_MATRIX_CLASSES = [
    # excess classes whose digits concatenate to the same string ((1,12) / (11,2)), two-digit degrees, zeros
    [(1, 12), (11, 2), (0, 3)],
    [(10, 1), (1, 1), (1, 0), (0, 10)],
    [(2, 2), (22, 0), (2, 20)],
]


def check_hand_matrices(res):
    """Row sums of hand-written mixing matrices over excess classes with large degrees."""
    from gcmpy.tools.joint_excess_joint_degree_matrices import JointExcessJointDegreeMatrices
    from gcmpy.tools.joint_excess_from_ejk import JointExcessFromEjk
    from gcmpy.names.tools_names import ToolsNames as TN
    for classes in HAND_MATRIX_CLASSES:
        n = len(classes)
        w = {}
        for i, a in enumerate(classes):
            for j, b in enumerate(classes):
                w[a + b] = Fraction(1 + (i + 1) * (j + 1) % 4 + (1 if i == j else 0))
        for a in classes:      # symmetrise
            for b in classes:
                w[a + b] = w[b + a] = (w[a + b] + w[b + a]) / 2
        tot = sum(w.values())
        ejk = {k: float(v / tot) for k, v in w.items()}
        want = {a: sum(w[a + b] for b in classes) / tot for a in classes}
        res.executions += 1
        res.transitions += 1
        res.states += 1
        try:
            m = JointExcessJointDegreeMatrices({TN.EJKS: {"x": dict(ejk), "y": dict(ejk)}, TN.EDGE_NAMES: ["x", "y"]})
            qks = JointExcessFromEjk.get_excess_joint_distributions(m)
            bad = same_dist(qks.get("x", {}), want) or same_dist(qks.get("y", {}), want)
        except Exception as e:
            bad = f"raised {e!r}"
        if bad:
            res.violation("C14:row-sums-hand-matrix", f"excess classes {classes}: {bad}", {"kind": "hand"})
        res.flags.add("hand-matrices")


def run_instance(inst, tier):
    res = Result()
    if inst["kind"] == "hand":
        check_hand_matrices(res)
        return res
    if inst["kind"] == "jdd":
        for t, keys in inst["items"]:
            keys = tuple(tuple(k) for k in keys)
            for ws in weight_patterns(len(keys)):
                check_jdd(res, t, keys, ws)
                if len(res.violations) >= 10:
                    return res
        if not res.samples:
            t, keys = inst["items"][-1]
            res.samples.append({"joint_degree_support": [list(k) for k in keys], "weight_patterns": "3 + one-rare-key patterns (relative weight 2^-34) for supports of 2-3 keys",
                                "naming_schemes": [s[:t] for s in NAME_SCHEMES]})
    else:
        for pl in inst["placements"]:
            check_net(res, inst["tset"], inst["N"], pl)
            if len(pl) <= 4:
                check_net(res, inst["tset"], inst["N"], pl, "reversed-insertion")
            if len(pl) <= 2:
                check_net(res, inst["tset"], inst["N"], pl, "string-labels")
            if len(pl) == 3:
                check_net(res, inst["tset"], inst["N"], pl, "large-int-labels")
            if len(res.violations) >= 10:
                return res
    return res


def finalize(agg, tier):
    if agg.violations:
        return []
    return [f"vacuous exploration: {f} never exercised" for f in ("inversion", "inversion-3plus", "network")
            if f not in agg.flags]


def replay(v):
    inst = v["instance"]
    r = Result()
    if inst.get("kind") == "hand":
        check_hand_matrices(r)
    elif "keys" in inst:
        check_jdd(r, inst["t"], tuple(tuple(k) for k in inst["keys"]), tuple(inst["weights"]))
    else:
        tops = netgen.TOPOLOGY_SETS[inst["tset"]]
        pl = [(k, tuple(vs), netgen.motif_edges(tops[k][2], vs)) for k, vs in inst["placement"]]
        check_net(r, inst["tset"], inst["N"], pl)
    for x in r.violations:
        print(x["key"], x["message"][:800])
    return 1 if r.violations else 0
