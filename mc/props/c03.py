"""C03 - stub matching is uniform (configuration-model measure): decided on the exact leaf distribution."""
from fractions import Fraction

from mc import engine, gen_common
from mc.framework import Result

ID = "C03"
LEVEL = "model_checking"
RNG_LAW_PROPERTY = True   # see framework._work: a library-side random.seed() is a violation
BATCH = 8
RULE = ("for every joint degree sequence in the box and every motif configuration, the exact probability (product "
        "of exact choice-point probabilities over the full RNG choice tree of the real generator) of every realised "
        "placement (sequence of build-callback argument lists) is compared with the configuration-model measure: "
        "all n_k!/prod_v d_vk! placements per topology reachable, all equally likely, independently per topology; "
        "non-trivial = instance with >= 3 distinct placements")
BOUNDS = {
    "quick": "N 1..4, entries 0..2, plus N<=3 entries<=4 (t=1), N<=2 entries<=3 (t=2); 10 fast + 12 custom configs; instances above 500 distinct arrangements skipped",
    "thorough": "N<=5, entries<=3 (t=1); N<=4, entries<=2 and N<=5, entries<=1 (t=2); N<=4, entries<=1 and N<=3, entries<=2 (t=3); 13 fast + 14 custom configs; cap 5000; also network and "
                "factory paths",
}
ASSUMPTIONS = ["the claim 'by symmetry for larger sequences' is outside an exhaustive check and not claimed",
               "probabilities are exact Fractions; random.shuffle is modelled as a uniform permutation"]


def instances(tier, seed):
    cap = gen_common.BOX[tier]["leaf_cap"]
    for inst in gen_common.all_instances(tier):
        inst["arrangements"] = gen_common.n_arrangements(inst["jds"], len(inst["jds"][0]))
        inst["skip"] = inst["arrangements"] > cap
        yield inst


def paths_for(kind, tier):
    if kind == "fast":
        return ["fast-direct"] + (["fast-factory", "network-direct"] if tier == "thorough" else [])
    return ["custom-direct"] + (["custom-factory"] if tier == "thorough" else [])


def distribution(inst, tier, path):
    dist = {}
    exc = []

    def on_obs(obs, meta, leaf):
        if leaf.exception is not None or obs is None or "log" not in obs:
            exc.append(repr(leaf.exception))
            return
        key = tuple((j, tuple(args)) for j, args, _ in obs["log"])
        dist[key] = dist.get(key, 0) + leaf.prob
    st, meta = gen_common.explore_instance(inst, tier, path, on_obs, track_prob=True)
    return dist, exc, st


def judge(inst, dist, exc):
    if exc:
        return ("C03:exception", f"generator raised {exc[0]}")
    n = inst["arrangements"]
    if len(dist) != n:
        return ("C03:placements-unreachable" if len(dist) < n else "C03:placement-count",
                f"{len(dist)} distinct placements realised, the configuration model has {n}")
    want = Fraction(1, n)
    off = [(k, p) for k, p in dist.items() if p != want]
    if off:
        k, p = off[0]
        return ("C03:not-uniform", f"placement {k} has probability {p}, configuration-model measure is {want} "
                f"({len(off)} of {n} placements off)")
    return None


def run_instance(inst, tier):
    res = Result()
    if inst["skip"]:
        res.skipped += 1
        return res
    small = {k: inst[k] for k in ("kind", "cfg", "cfg_name", "jds")}
    for path in paths_for(inst["kind"], tier):
        dist, exc, st = distribution(inst, tier, path)
        res.executions += st.leaves
        res.states += len(dist)
        res.transitions += st.points + st.leaves
        res.revalidated += st.rechecked
        bad = judge(inst, dist, exc)
        if bad:
            res.violation(bad[0], f"{path} cfg={inst['cfg_name']} jds={inst['jds']}: {bad[1]}", small, path=path)
        if inst["arrangements"] >= 3:
            res.nontrivial.add((inst["kind"], inst["cfg"], tuple(map(tuple, inst["jds"]))))
        if len(inst["jds"][0]) >= 2 and inst["arrangements"] >= 4:
            res.flags.add("two-topologies")
        if inst["cfg_name"] == "clique2" and inst["jds"] == [(1,)] * 4 and path == "fast-direct":
            match = {}
            for key, p in dist.items():
                m = frozenset(frozenset(a) for _, a in key)
                match[m] = match.get(m, 0) + p
            res.flags.add("matching-sample")
            res.samples.append({"jds": inst["jds"], "config": "clique2",
                                "perfect_matching_probabilities": {str(sorted(map(sorted, m))): str(p)
                                                                   for m, p in match.items()}})
            if sorted(match.values()) != [Fraction(1, 3)] * 3:
                res.violation("C03:matchings", f"four degree-1 vertices: matchings have probabilities {match}", small,
                              path=path)
    return res


def finalize(agg, tier):
    if agg.violations:
        return []
    return [f"vacuous exploration: {f} never seen" for f in ("two-topologies", "matching-sample")
            if f not in agg.flags]


def replay(v):
    inst = dict(v["instance"])
    inst["jds"] = [tuple(r) for r in inst["jds"]]
    inst["arrangements"] = gen_common.n_arrangements(inst["jds"], len(inst["jds"][0]))
    dist, exc, st = distribution(inst, v.get("tier", "quick"), v["path"])
    for k, p in sorted(dist.items())[:20]:
        print(p, k)
    bad = judge(inst, dist, exc)
    print("oracle:", bad)
    return 1 if bad else 0
