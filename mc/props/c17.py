"""C17 - message passing returns the fixed point of the motif-cover equations."""
import copy
import itertools
from collections import deque

from mc import enumr, perc
from mc.framework import Result

ID = "C17"
LEVEL = "model_checking"
BATCH = 1
RULE = ("every cover-labelled network = every set of motifs from {2-clique, 3-clique, 4-cycle, diamond, 4-clique} on "
        "<= 4 labelled vertices pairwise sharing at most one vertex, plus every loopy cover (each vertex in >= 2 motifs) on 5 vertices up to isomorphism and a catalogue on 5-7 "
        "vertices (3 labelings); the real MessagePassing.theoretical is compared with a reference solver (messages "
        "from 0.5, each motif's contribution from the 2^|E| enumeration oracle) at phi in {0.1..0.9} where the "
        "reference converges with contraction <= 0.9; for all phi on a 21-point grid and iteration counts "
        "{1,2,3,5,25}: value in [0,1], 0 at phi=0, non-decreasing in phi; explicit-state BFS over query histories on "
        "one object (phi in {0,0.3,0.7,1}) against fresh objects; non-trivial = network with >= 2 motifs")
BOUNDS = {"quick": "all such networks on <= 4 vertices with <= 4 motifs; 6 catalogue networks; histories to fixpoint "
                   "(cap depth 3)",
          "thorough": "networks on <= 5 vertices with <= 4 motifs; catalogue in 3 labelings; histories over 5 phi values, "
                      "cap depth 4"}
ASSUMPTIONS = ["fixed-point comparison only where three reference iterations (Jacobi from 0.5, Gauss-Seidel reversed "
               "from 0.5, Jacobi from 0) agree and converge quickly; other points are skipped and counted",
               "monotonicity/bounds are theorems of the specified update from the constant start (tolerance 1e-12)",
               "labels use the mixin's 4-field format key-[vertices]-[edges]-id with non-negative vertex ids"]

SHAPES = {
    "2": (2, lambda v: [(v[0], v[1])]),
    "3": (3, lambda v: [(v[0], v[1]), (v[0], v[2]), (v[1], v[2])]),
    "4c": (4, lambda v: [(v[0], v[1]), (v[1], v[2]), (v[2], v[3]), (v[0], v[3])]),
    "d": (4, lambda v: [(v[0], v[1]), (v[1], v[2]), (v[2], v[3]), (v[0], v[3]), (v[0], v[2])]),
    "4": (4, lambda v: [(v[a], v[b]) for a in range(4) for b in range(a + 1, 4)]),
    # larger motifs, used by the catalogue only
    "5": (5, lambda v: [(v[a], v[b]) for a in range(5) for b in range(a + 1, 5)]),
    "5c": (5, lambda v: [(v[i], v[(i + 1) % 5]) for i in range(5)]),
    # "house": a 4-cycle with a triangle on one side (vertices of three different roles, 6 edges)
    "house": (5, lambda v: [(v[0], v[1]), (v[1], v[2]), (v[2], v[3]), (v[0], v[3]), (v[0], v[4]), (v[1], v[4])]),
    "bar": (6, lambda v: [(v[0], v[1]), (v[0], v[2]), (v[1], v[2]), (v[3], v[4]), (v[3], v[5]), (v[4], v[5]),
                          (v[2], v[3])]),
}
SMALL_SHAPES = ("2", "3", "4c", "d", "4")


def motif_candidates(N):
    out = []
    for key in SMALL_SHAPES:
        size, f = SHAPES[key]
        seen = set()
        for sub in itertools.combinations(range(N), size):
            for perm in itertools.permutations(sub):
                es = [tuple(sorted(e)) for e in f(perm)]
                fs = frozenset(es)
                if fs in seen:
                    continue
                seen.add(fs)
                out.append((key, list(perm), es))
    return out


def networks(N, max_motifs):
    cands = motif_candidates(N)

    def rec(start, chosen):
        if chosen:
            yield list(chosen)
        if len(chosen) >= max_motifs:
            return
        for i in range(start, len(cands)):
            k, vs, es = cands[i]
            if all(len(set(vs) & set(c[1])) <= 1 for c in chosen):
                chosen.append(cands[i])
                yield from rec(i + 1, chosen)
                chosen.pop()
    yield from rec(0, [])


def catalogue():
    def mk(motifs):
        return [(k, list(vs), [tuple(sorted(e)) for e in SHAPES[k][1](vs)]) for k, vs in motifs]
    return [
        ("K4-by-2-cliques", 4, mk([("2", p) for p in itertools.combinations(range(4), 2)])),
        ("K5-by-2-cliques", 5, mk([("2", p) for p in itertools.combinations(range(5), 2)])),
        ("ring-of-3-triangles", 6, mk([("3", (0, 1, 2)), ("3", (2, 3, 4)), ("3", (4, 5, 0))])),
        ("two-diamonds-closed", 7, mk([("d", (0, 1, 2, 3)), ("d", (3, 4, 5, 6)), ("2", (1, 5))])),
        ("triangle+cycle+edges", 6, mk([("3", (0, 1, 2)), ("4c", (2, 3, 4, 5)), ("2", (0, 4)), ("2", (1, 5))])),
        ("K4+triangles", 6, mk([("4", (0, 1, 2, 3)), ("3", (3, 4, 5)), ("2", (0, 4)), ("2", (1, 5))])),
        # larger motifs: 5-clique, 5-cycle, barbell (two triangles joined by a bridge inside ONE motif)
        ("K5+triangle+edges", 7, mk([("5", (0, 1, 2, 3, 4)), ("3", (4, 5, 6)), ("2", (0, 5)), ("2", (1, 6))])),
        ("5-cycle+triangle+edges", 7, mk([("5c", (0, 1, 2, 3, 4)), ("3", (4, 5, 6)), ("2", (0, 5)), ("2", (2, 6))])),
        ("barbell+edges", 8, mk([("bar", (0, 1, 2, 3, 4, 5)), ("2", (0, 6)), ("2", (6, 7)), ("2", (7, 5))])),
        ("house+triangle+edges", 7, mk([("house", (0, 1, 2, 3, 4)), ("3", (4, 5, 6)), ("2", (2, 5)), ("2", (3, 6))])),
        # 12 motifs: ids reach two digits (see ID_MAPS: also non-contiguous ids such as 1, 6, 11, 16)
        ("K6-minus-matching-by-2-cliques", 6, mk([("2", p) for p in itertools.combinations(range(6), 2)
                                                   if p not in ((0, 1), (2, 3), (4, 5))])),
        # two components and an isolated vertex (vertex 8)
        ("two-components+isolated", 9, mk([("3", (0, 1, 2)), ("3", (2, 3, 4)), ("2", (0, 3)), ("2", (1, 4)),
                                           ("3", (5, 6, 7))])),
    ]


ID_MAPS = {"contiguous": lambda i: i, "sparse-ids": lambda i: 5 * i + 1}


def dense(N, maxm, keys, minm=3):
    """Loopy covers: every vertex lies in >= 2 motifs; one representative per isomorphism class."""
    cands = [c for c in motif_candidates(N) if c[0] in keys]
    out = {}
    perms = list(itertools.permutations(range(N)))

    def rec(start, chosen):
        if len(chosen) >= minm:
            deg = {}
            for k, vs, es in chosen:
                for v in vs:
                    deg[v] = deg.get(v, 0) + 1
            if len(deg) == N and min(deg.values()) >= 2:
                best = None
                for perm in perms:
                    form = tuple(sorted((k, tuple(sorted(perm[v] for v in vs))) for k, vs, es in chosen))
                    if best is None or form < best:
                        best = form
                out.setdefault(best, [c for c in chosen])
        if len(chosen) >= maxm:
            return
        for i in range(start, len(cands)):
            k, vs, es = cands[i]
            if all(len(set(vs) & set(c[1])) <= 1 for c in chosen):
                chosen.append(cands[i])
                rec(i + 1, chosen)
                chosen.pop()
    rec(0, [])
    return list(out.values())


def instances(tier, seed):
    for net in dense(5, 10, ("2", "3")) + dense(5, 6, ("2", "3", "4c", "d", "4")):
        yield {"kind": "nets", "N": 5, "nets": [net], "name": "dense-loopy"}
    maxN = 4 if tier == "quick" else 5
    for N in range(2, maxN + 1):
        batch = []
        for net in networks(N, 4):
            if N == maxN or max(v for m in net for v in m[1]) == N - 1:
                batch.append(net)
            if len(batch) >= (2 if tier == "quick" else 2):
                yield {"kind": "nets", "N": N, "nets": batch}
                batch = []
        if batch:
            yield {"kind": "nets", "N": N, "nets": batch}
    for name, N, net in catalogue():
        heavy = sum(len(es) for _, _, es in net) >= 12
        plain = enumr.relabelings(N, seed, kinds=("identity",))[0]
        sparse = enumr.relabelings(N, seed, kinds=("sparse",))[0]
        variants = []
        if not (heavy and tier == "quick"):
            variants.append((plain, "contiguous", False, ""))
        # non-contiguous shuffled vertex ids + non-contiguous two-digit motif ids + reversed vertex/edge lists in labels
        variants.append((sparse, "sparse-ids", True, " (sparse vertex ids, sparse motif ids, reversed label lists)"))
        if tier == "thorough":
            variants.append((enumr.relabelings(N, seed, kinds=("reversed",))[0], "contiguous", True, " (reversed)"))
        if not heavy:
            # vertex ids 1000, 1007, ...: every occurrence in the graph's edges is a separate int object
            variants.append((enumr.relabelings(N, seed, kinds=("large",))[0], "contiguous", False, " (large vertex ids)"))
        for lab, ids, rev, suffix in variants:
            net2 = [(k, [lab[v] for v in vs], [tuple(sorted((lab[a], lab[b]))) for a, b in es]) for k, vs, es in net]
            yield {"kind": "nets", "N": N, "nets": [net2], "name": name + suffix, "verts": sorted(lab), "ids": ids,
                   "reverse_lists": rev}
    yield {"kind": "history"}


def build_graph(verts, net, ids="contiguous", reverse_lists=False):
    import networkx as nx
    G = nx.Graph()
    G.add_nodes_from(verts)
    for i, (key, vs, es) in enumerate(net):
        uid = ID_MAPS[ids](i)
        vl = list(vs)[::-1] if reverse_lists else list(vs)
        el = [tuple(e) for e in es][::-1] if reverse_lists else [tuple(e) for e in es]
        key = key if key.isdigit() else str(len(vs))     # the label's first field is parsed as an int by the mixin
        label = f"{key}-{vl}-{el}-{uid}"
        for a, b in es:
            G.add_edge(enumr.fresh(a), enumr.fresh(b), CoverLabel=label)
    return G


def reference(verts, net, phi, mode, start=0.5, max_iter=4000):
    """Reference solver.  Returns (S, iterations, contraction estimate) or None if not converged."""
    member = {v: [] for v in verts}
    for t, (key, vs, es) in enumerate(net):
        for v in vs:
            member[v].append(t)
    H = {(v, t): start for t, (key, vs, es) in enumerate(net) for v in vs}
    order = [(v, t) for t, (key, vs, es) in enumerate(net) for v in vs]
    if mode == "gs-rev":
        order = order[::-1]
    res_prev = None
    rho = 0.0
    for it in range(1, max_iter + 1):
        src = dict(H) if mode == "jacobi" else H
        new = H if mode != "jacobi" else {}
        delta = 0.0
        for (i, t) in order:
            key, vs, es = net[t]
            u = {}
            for j in vs:
                if j == i:
                    continue
                pr = 1.0
                for nu in member[j]:
                    if nu != t:
                        pr *= src[(j, nu)]
                u[j] = pr
            val = perc.expectation_float(vs, es, i, phi, u)
            delta = max(delta, abs(val - src[(i, t)]))
            new[(i, t)] = val
        H = new
        if res_prev and res_prev > 1e-300 and delta > 1e-14:
            rho = delta / res_prev
        res_prev = delta
        if delta < 1e-14:
            tot = 0.0
            for v in verts:
                pr = 1.0
                for nu in member[v]:
                    pr *= H[(v, nu)]
                tot += pr
            return 1 - tot / len(verts), it, rho
    return None


GRID = [i / 20 for i in range(21)]


def check_net(res, verts, net, tier, desc):
    from gcmpy.message_passing.message_passing import MessagePassing
    G = build_graph(verts, net, desc.get("ids", "contiguous"), desc.get("reverse_lists", False))
    res.states += 1
    # bounds, zero at phi=0, monotone in phi for several iteration counts
    heavy = sum(len(es) for _, _, es in net) >= 12
    grid = GRID[::2] if heavy else GRID
    for iters in ((1, 3) if heavy else (1, 2, 3, 5, 25)):
        try:
            mp = MessagePassing(G, iterations=iters)
            vals = []
            for phi in grid:
                res.executions += 1
                res.transitions += 1
                vals.append(mp.theoretical(phi))
        except Exception as e:
            res.violation("C17:raises", f"net={net} iterations={iters}: {e!r}", desc)
            return
        if abs(vals[0]) > 1e-12:
            res.violation("C17:nonzero-at-phi-0", f"net={net} iterations={iters}: theoretical(0) = {vals[0]}", desc)
            return
        for phi, a in zip(grid, vals):
            if not -1e-12 <= a <= 1 + 1e-12:
                res.violation("C17:out-of-range", f"net={net} iterations={iters}: theoretical({phi}) = {a}", desc)
                return
        for (p0, a), (p1, b) in zip(zip(grid, vals), zip(grid[1:], vals[1:])):
            if b < a - 1e-12:
                res.violation("C17:not-monotone", f"net={net} iterations={iters}: theoretical({p0}) = {a} > "
                              f"theoretical({p1}) = {b}", desc)
                return
    # fixed point
    import math
    for phi in ((0.3, 0.6, 0.8, 0.97, 1.0) if heavy else
                (0.1, 0.2, 0.3, 0.4, 0.5, 0.6, 0.7, 0.8, 0.9, 0.95, 0.97, 0.99, 1.0)):
        refs = [reference(verts, net, phi, "jacobi"), reference(verts, net, phi, "gs-rev"),
                reference(verts, net, phi, "jacobi", start=0.0)]
        if any(r is None for r in refs) or max(r[2] for r in refs) > 0.9 \
                or max(abs(refs[0][0] - r[0]) for r in refs) > 1e-11:
            res.count("fixed_point_comparisons_skipped_slow_or_ambiguous")
            continue
        res.executions += 1
        res.transitions += 1
        rho = max(r[2] for r in refs)
        iters = 30 if rho < 0.3 else min(320, max(30, int(math.log(1e-13) / math.log(rho)) + 10))
        got = MessagePassing(G, iterations=iters).theoretical(phi)
        res.count("fixed_point_comparisons")
        if refs[0][0] > 1e-3:
            res.count("fixed_point_comparisons_nontrivial_S>0.001")
            res.flags.add("nontrivial-fixed-point")
        if abs(got - refs[0][0]) > 1e-9:
            res.violation("C17:fixed-point", f"net={net} phi={phi}: theoretical = {got}, fixed point of the "
                          f"motif-cover equations = {refs[0][0]}", desc, phi=phi)
            return
    if len(net) >= 2:
        res.nontrivial.add(repr(net))
    if any(k in ("4c", "d") for k, _, _ in net):
        res.flags.add("chorded-or-cycle-motif")
    if any(len(set(a[1]) & set(b[1])) == 1 for a, b in itertools.combinations(net, 2)):
        res.flags.add("motifs-sharing-a-vertex")


HIST_NET = [("3", [0, 1, 2], [(0, 1), (0, 2), (1, 2)]), ("d", [2, 3, 4, 5], [(2, 3), (3, 4), (4, 5), (2, 5), (2, 4)]),
            ("2", [0, 4], [(0, 4)]), ("2", [1, 5], [(1, 5)])]


def mp_state(mp):
    ae = mp._AE if hasattr(mp, "_AE") else None
    caches = repr(sorted((k, sorted(v.keys()) if isinstance(v, dict) else repr(v)) for k, v in vars(ae).items())) \
        if ae is not None else ""
    rest = repr(sorted((k, repr(v)) for k, v in vars(mp).items() if k not in ("_AE", "_MPM")))
    return caches + rest


def run_history(res, tier):
    from gcmpy.message_passing.message_passing import MessagePassing
    verts = list(range(6))
    # 0.704 and 0.7004 fall into the same 0.01 / 0.001 bucket as 0.7 (answers must not be shared between them)
    phis = [0.0, 0.3, 0.7, 0.704, 0.7004, 1.0] if tier == "quick" else [0.0, 0.3, 0.5, 0.7, 0.704, 0.7004, 1.0]
    maxdepth = 3 if tier == "quick" else 4
    for iters in (3, 25):
        G = build_graph(verts, HIST_NET)
        fresh = {phi: MessagePassing(build_graph(verts, HIST_NET), iterations=iters).theoretical(phi)
                 for phi in phis}
        mp0 = MessagePassing(G, iterations=iters)
        seen = {mp_state(mp0): []}
        frontier = deque([(mp0, [])])
        while frontier:
            mp, hist = frontier.popleft()
            res.states += 1
            for phi in phis:
                nxt = copy.deepcopy(mp)
                res.executions += 1
                res.transitions += 1
                h2 = hist + [phi]
                try:
                    val = nxt.theoretical(phi)
                except Exception as e:
                    res.violation("C17:history-raises", f"iterations={iters} history {h2}: {e!r}",
                                  {"kind": "history"}, history=h2, iters=iters)
                    return
                if abs(val - fresh[phi]) > 1e-12:
                    res.violation("C17:history-dependent",
                                  f"iterations={iters}: after queries {hist} theoretical({phi}) = {val}, a fresh "
                                  f"object returns {fresh[phi]}", {"kind": "history"}, history=h2, iters=iters)
                    return
                k = mp_state(nxt)
                if k not in seen:
                    seen[k] = h2
                    if len(h2) < maxdepth:
                        frontier.append((nxt, h2))
                    else:
                        res.count("history_states_at_depth_cap")
        for k, hist in seen.items():
            mp = MessagePassing(build_graph(verts, HIST_NET), iterations=iters)
            for phi in hist:
                mp.theoretical(phi)
            res.revalidated += 1
            if mp_state(mp) != k:
                res.infra.append(f"replay of query history {hist} reaches a different state")
        res.count("history_states", len(seen))
        for k in seen:
            res.nontrivial.add(k)
        res.flags.add("history")
    res.samples.append({"query_histories": f"phi in {phis}, depth <= {maxdepth}, network triangle+diamond+2 edges"})


def run_instance(inst, tier):
    res = Result()
    if inst["kind"] == "history":
        run_history(res, tier)
        return res
    for net in inst["nets"]:
        net = [(k, list(vs), [tuple(e) for e in es]) for k, vs, es in net]
        verts = inst.get("verts") or list(range(inst["N"]))
        check_net(res, verts, net, tier, {"kind": "nets", "N": inst["N"], "nets": [net], "verts": verts,
                                           "ids": inst.get("ids", "contiguous"),
                                           "reverse_lists": inst.get("reverse_lists", False)})
        if len(res.violations) >= 5:
            break
    if not res.samples:
        res.samples.append({"network_motifs": inst["nets"][-1], "name": inst.get("name", "")})
    return res


def finalize(agg, tier):
    if agg.violations:
        return []
    out = [f"vacuous exploration: {f} never seen" for f in
           ("chorded-or-cycle-motif", "motifs-sharing-a-vertex", "history") if f not in agg.flags]
    if agg.counters.get("fixed_point_comparisons_nontrivial_S>0.001", 0) < 100:
        out.append("vacuous exploration: fewer than 100 non-trivial fixed-point comparisons were admissible")
    return out


def replay(v):
    inst = v["instance"]
    if inst.get("kind") == "history":
        from gcmpy.message_passing.message_passing import MessagePassing
        verts = list(range(6))
        mp = MessagePassing(build_graph(verts, HIST_NET), iterations=v["iters"])
        val = None
        for phi in v["history"]:
            val = mp.theoretical(phi)
        fresh = MessagePassing(build_graph(verts, HIST_NET), iterations=v["iters"]).theoretical(v["history"][-1])
        print("history", v["history"], "->", val, "fresh:", fresh)
        return 1 if abs(val - fresh) > 1e-12 else 0
    r = run_instance(inst, v.get("tier", "quick"))
    for x in r.violations:
        print(x["key"], x["message"][:800])
    return 1 if r.violations else 0
