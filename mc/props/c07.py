"""C07 - split-degree and delta loaders preserve the overall degree law."""
import itertools
from fractions import Fraction

from mc import enumr
from mc.framework import Result

ID = "C07"
LEVEL = "model_checking"
BATCH = 40
RULE = ("exhaustive grid: t=1..4 clique topologies, every degree range 0<=lo<hi<=7, probability vectors on a "
        "rational grid (compositions of 1 in tenths for t<=2, fifths for t>=3, p_1>0, plus unnormalised vectors), "
        "3 degree functions, delta targets lo-1..hi+1; the table is compared with a reference that enumerates all "
        "compositions k = sum i*k_i itself; direct and dispatched construction (second create_jdd); histories of "
        "resolve_degree calls up to length 3; non-trivial = instance whose range holds >= 2 degrees and t >= 2")
BOUNDS = {"quick": "hi<=6, t<=3 (t=4 with 2 probability vectors)", "thorough": "hi<=7, t<=4 full grid"}
ASSUMPTIONS = ["the loader's degree range may be [lo,hi) or [lo,hi] (the property says 'for every k in the degree "
               "range'); the code uses the half-open one",
               "real-valued parameters only on the stated rational grid; tolerance 1e-12 relative"]
TOL = 1e-12


def fp_of(kind):
    return {"1/(k+1)": lambda k: 1.0 / (k + 1), "2^-k": lambda k: 2.0 ** (-k), "const": lambda k: 0.5, "geo": lambda k: 2.0 ** (-(k + 1)),
            "k+1": lambda k: k + 1}[kind]


def prob_vectors(t, tier):
    den = 10 if t <= 2 else 5
    out = []
    for comp in enumr.compositions(den, t):
        if comp[0] > 0:
            out.append([Fraction(c, den) for c in comp])
    if t == 4 and tier == "quick":
        out = [out[0], out[len(out) // 2], out[-1], [Fraction(2, 5), Fraction(1, 5), Fraction(1, 5), Fraction(1, 5)]]
    out.append([Fraction(2), Fraction(1), Fraction(3), Fraction(1, 2)][:t])  # unnormalised
    return out


def instances(tier, seed):
    maxhi = 6 if tier == "quick" else 7
    # an overall-degree law that sums to 1 - 2^-21 over the range: almost, but not, normalised already
    for t in (1, 2):
        yield {"t": t, "probs": [str(p) for p in prob_vectors(t, tier)[1 if t == 2 else 0]], "lo": 0, "hi": 21,
               "fp": "geo"}
    for t in range(1, 5):
        for probs in prob_vectors(t, tier):
            for lo in range(0, maxhi):
                for hi in range(lo + 1, maxhi + 1):
                    for fk in ("1/(k+1)", "2^-k", "k+1"):
                        yield {"t": t, "probs": [str(p) for p in probs], "lo": lo, "hi": hi, "fp": fk}


def splits(k, t):
    """All (k_1..k_t) with sum i*k_i = k - my own enumeration."""
    out = []
    for ks in itertools.product(*[range(k // i + 1) for i in range(1, t + 1)]):
        if sum(i * x for i, x in zip(range(1, t + 1), ks)) == k:
            out.append(ks)
    return out


def weight(jd, probs):
    w = 1.0
    for i, x in enumerate(jd):
        w *= float(probs[i]) ** ((i + 1) * x)
    return w


def expected_split(t, probs, fp, krange, target=None):
    law = {}
    tot = sum(fp(k) for k in krange)
    for k in krange:
        if target is not None and k != target:
            law[(k,) + (0,) * (t - 1)] = fp(k) / tot
            continue
        sp = splits(k, t)
        ws = [weight(jd, probs) for jd in sp]
        s = sum(ws)
        for jd, w in zip(sp, ws):
            law[jd] = law.get(jd, 0.0) + fp(k) / tot * w / s
    return law


def compare(jdd, laws, what):
    if not isinstance(jdd, dict):
        return (f"C07:{what}:no-table", f"jdd is {jdd!r}")
    msgs = []
    for law in laws:
        if set(jdd) != set(law):
            ks_got = sorted({sum((i + 1) * x for i, x in enumerate(k)) for k in jdd})
            ks_want = sorted({sum((i + 1) * x for i, x in enumerate(k)) for k in law})
            msgs.append((f"C07:{what}:support", f"table covers overall degrees {ks_got} with {len(jdd)} keys, "
                         f"expected degrees {ks_want} with {len(law)} keys; e.g. missing "
                         f"{sorted(set(law) - set(jdd))[:3]} extra {sorted(set(jdd) - set(law))[:3]}"))
            continue
        bad = [(k, jdd[k], law[k]) for k in law if abs(float(jdd[k]) - law[k]) > TOL * max(1.0, law[k])]
        if bad:
            msgs.append((f"C07:{what}:mass", f"P{bad[0][0]} = {bad[0][1]!r}, expected {bad[0][2]!r} "
                         f"({len(bad)} of {len(law)} entries off)"))
            continue
        return None
    return msgs[0]


def build(kind, params, how):
    from gcmpy.joint_degree.joint_degree_distribution import JointDegreeDistribution
    from gcmpy.joint_degree.joint_degree_loaders.joint_degree_split_degree import JointDegreeSplitDegree
    from gcmpy.joint_degree.joint_degree_loaders.joint_degree_delta import JointDegreeDelta
    from gcmpy.names.joint_degree_names import JointDegreeNames as JN
    cls = JointDegreeSplitDegree if kind == "split_degree" else JointDegreeDelta
    if how == "direct":
        return cls(dict(params))
    p = dict(params)
    p[JN.JOINT_DEGREE_TYPE] = kind
    obj = JointDegreeDistribution.load_joint_degree(p)
    if type(obj) is not cls:
        raise AssertionError(f"dispatch returned {type(obj).__name__}")
    return obj


def run_instance(inst, tier):
    from gcmpy.names.joint_degree_names import JointDegreeNames as JN
    res = Result()
    t, lo, hi = inst["t"], inst["lo"], inst["hi"]
    probs = [Fraction(p) for p in inst["probs"]]
    fp = fp_of(inst["fp"])
    sizes = list(range(2, t + 2))
    ranges = [range(lo, hi), range(lo, hi + 1)]
    base = {JN.FP: fp, JN.PROBS: [float(p) for p in probs], JN.MOTIF_SIZES: sizes,
            JN.LOW_HIGH_DEGREE_BOUND: (lo, hi)}
    desc = dict(inst)

    def one(kind, params, laws, what, extra):
        for how in ("direct", "dispatch"):
            res.executions += 1
            res.states += 1
            res.transitions += 1
            try:
                obj = build(kind, params, how)
                bad = compare(obj.jdd, laws, what)
                if bad is None and abs(sum(obj.jdd.values()) - 1) > 1e-9:
                    bad = (f"C07:{what}:not-normalised", f"sums to {sum(obj.jdd.values())}")
            except Exception as e:
                bad = (f"C07:{what}:raises", repr(e))
            if bad:
                res.violation(bad[0], f"{kind} ({how}) t={t} probs={inst['probs']} range=({lo},{hi}) fp={inst['fp']} "
                              f"{extra}: {bad[1]}", desc, kind=kind, how=how, **extra)
                return False
        return True

    laws = [expected_split(t, probs, fp, r) for r in ranges]
    ok = one("split_degree", base, laws, "split", {})
    # object histories (once per range shape): (a) a second loader with another range is built while the first is still
    # in use - the first one's table must not change; (b) the caller's probability list is edited in place and the
    # table rebuilt with create_jdd - the table must follow the new probabilities
    if ok and t >= 2 and inst["fp"] == "2^-k" and hi - lo >= 2:
        for kind in ("split_degree", "delta"):
            res.executions += 2
            try:
                plist = [float(p) for p in probs]
                pa = dict(base)
                pa[JN.PROBS] = plist
                if kind == "delta":
                    pa[JN.TARGET_K] = lo + 1
                first = build(kind, pa, "direct")
                lawa = [expected_split(t, probs, fp, r, target=(lo + 1 if kind == "delta" else None)) for r in ranges]
                pb = dict(pa)
                pb[JN.PROBS] = list(reversed(plist)) if plist[-1] > 0 else list(plist)   # p_1 > 0 is part of the box
                pb[JN.LOW_HIGH_DEGREE_BOUND] = (lo + 1, hi + 2)
                build(kind, pb, "direct")
                bad = compare(first.jdd, lawa, kind)
                if bad:
                    res.violation(f"C07:{kind}:changed-by-another-loader", f"{kind} t={t} probs={inst['probs']} "
                                  f"range=({lo},{hi}): after a second loader (range ({lo + 1},{hi + 2})) was built the "
                                  f"first one's table is wrong: {bad[1]}", desc, kind=kind)
                    break
                rev = list(reversed(probs))
                if rev[0] > 0:
                    plist[:] = [float(p) for p in rev]
                    first.create_jdd()
                    lawr = [expected_split(t, rev, fp, r, target=(lo + 1 if kind == "delta" else None)) for r in ranges]
                    bad = compare(first.jdd, lawr, kind)
                    if bad:
                        res.violation(f"C07:{kind}:stale-after-probs-edited", f"{kind} t={t} range=({lo},{hi}): the "
                                      f"probability list was edited in place from {inst['probs']} to its reverse and "
                                      f"create_jdd called again: {bad[1]}", desc, kind=kind)
                        break
                    res.flags.add("probs-edited-in-place")
            except Exception as e:
                res.violation(f"C07:{kind}:history-raises", f"{kind} t={t} probs={inst['probs']} range=({lo},{hi}): {e!r}",
                              desc, kind=kind)
                break
    if hi - lo >= 2 and t >= 2:
        res.nontrivial.add(("split", t, tuple(inst["probs"]), lo, hi, inst["fp"]))
        res.flags.add("split-multi-degree")
    # delta loader: targets inside, on the boundary and outside the range
    if ok:
        for target in range(lo - 1, hi + 2):
            p = dict(base)
            p[JN.TARGET_K] = target
            laws = [expected_split(t, probs, fp, r, target=target) for r in ranges]
            if not one("delta", p, laws, "delta", {"target": target}):
                break
            if lo <= target < hi and inst["fp"] == "2^-k" and t <= 2:
                # the same target as an equal number of another numeric type
                import numpy as np
                for alt in (float(target), np.int64(target)):
                    p2 = dict(p)
                    p2[JN.TARGET_K] = alt
                    if not one("delta", p2, laws, "delta", {"target": repr(alt)}):
                        break
                # a non-integer target matches no degree: every degree stays pure first-topology
                p3 = dict(p)
                p3[JN.TARGET_K] = target + 0.5
                if not one("delta", p3, [expected_split(t, probs, fp, r, target=-99) for r in ranges], "delta",
                           {"target": repr(target + 0.5)}):
                    break
                # the motif sizes handed to the loader play no role in the split law (the i-th topology spends i edges)
                if t >= 2:
                    p4 = dict(p)
                    p4[JN.MOTIF_SIZES] = [2] + [s_ + 1 for s_ in sizes[1:]]
                    if not one("delta", p4, laws, "delta", {"target": target, "motif_sizes": p4[JN.MOTIF_SIZES]}):
                        break
                    b4 = dict(base)
                    b4[JN.MOTIF_SIZES] = p4[JN.MOTIF_SIZES]
                    if not one("split_degree", b4, [expected_split(t, probs, fp, r) for r in ranges], "split",
                               {"motif_sizes": b4[JN.MOTIF_SIZES]}):
                        break
            if lo < target < hi - 1 and t >= 2:
                res.flags.add("delta-target-inside-with-degrees-below")
                res.nontrivial.add(("delta", t, tuple(inst["probs"]), lo, hi, inst["fp"], target))
    # histories of resolve_degree on one object (secondary; only if the method exists)
    if ok and hi - lo >= 2 and inst["fp"] == "2^-k":
        try:
            probe = build("split_degree", base, "direct")
        except Exception:
            probe = None
        if probe is not None and hasattr(probe, "resolve_degree"):
            ks = list(range(lo, hi))[:3]
            for hist in itertools.chain(itertools.permutations(ks, 2), itertools.permutations(ks, 3)):
                obj = build("split_degree", base, "direct")
                obj.jdd = {}
                res.executions += 1
                res.transitions += len(hist)
                try:
                    for k in hist:
                        obj.resolve_degree(k, fp(k))
                    got = {sum((i + 1) * x for i, x in enumerate(key)) for key in obj.jdd}
                except Exception as e:
                    got = repr(e)
                if got != set(hist):
                    res.violation("C07:history:resolved-degree-lost",
                                  f"split loader t={t} range=({lo},{hi}): after resolve_degree calls {list(hist)} the "
                                  f"table holds overall degrees {got}", desc, history=list(hist))
                    break
                res.flags.add("resolve-history")
    if not res.samples and t == 3 and hi - lo == 3:
        res.samples.append(dict(inst, delta_targets=list(range(lo - 1, hi + 2))))
    return res


def finalize(agg, tier):
    if agg.violations:
        return []
    need = ["split-multi-degree", "delta-target-inside-with-degrees-below"]
    return [f"vacuous exploration: {f} never exercised" for f in need if f not in agg.flags]


def replay(v):
    r = run_instance(v["instance"], v.get("tier", "quick"))
    for x in r.violations:
        print(x["key"], x["message"][:800])
    return 1 if r.violations else 0
