"""C11 - MCMC rewiring preserves vertices, degrees and motif structure (explicit state graph of accepted swaps)."""
from mc import engine, mcmc, netgen
from mc.framework import Result

ID = "C11"
LEVEL = "model_checking"
BATCH = 1
RULE = ("the state space is every clean motif network of the box (every edge-disjoint placement of the topology "
        "set's motifs on N labelled vertices, built by the real converter; the box is closed under swaps, so it is "
        "a union of closures and every swap history of any length is a path in it); from EVERY state the real "
        "rewire() with CONVERGENCE_LIMIT=0 is run under the RNG explorer over every draw of the drawable edge set and "
        "both outcomes of the Metropolis comparison, with at most d extra draws beyond (e0, e1) per accepted swap; "
        "invariants are evaluated on every returned graph, at every draw (drawable set == working edge set) and at "
        "every cut (failed proposals leave the state unchanged); multi-swap runs (limits 1, 2) are explored "
        "statelessly; non-trivial = state with >= 1 accepted-swap successor")
PLAN = {
    # (topology set, N, min motifs, max motifs)
    "quick": [("c2", 5, 2, 7), ("c2", 6, 2, 3), ("c2+c3", 5, 2, 4), ("c3", 6, 2, 3), ("blue+red", 4, 2, 4),
              ("c2+cyc4", 5, 2, 3)],
    "thorough": [("c2", 5, 2, 10), ("c2", 6, 2, 5), ("c2+c3", 5, 2, 6), ("c2+c3", 6, 2, 4), ("c3", 6, 2, 4),
                 ("blue+red", 4, 2, 6), ("blue+c3+red", 5, 2, 4), ("c2+cyc4", 5, 2, 4), ("c2+cyc4", 6, 2, 3),
                 ("c2+c4", 6, 2, 4)],
}


def deviation_bound(tier, n_edges, n_topologies=1):
    if n_topologies >= 2 and n_edges <= (4 if tier == "quick" else 5):
        return 2   # a complete second proposal (possibly of the other topology) inside one call
    if tier == "quick":
        return 1 if n_edges <= 5 else 0
    return 2 if n_edges <= 5 else (1 if n_edges <= 8 else 0)


BOUNDS = {t: "; ".join(f"{ts} on N={n} with {a}..{m} motifs" for ts, n, a, m in PLAN[t]) +
          ("; deviation bound d=1 for <= 5 edges else 0" if t == "quick" else
           "; deviation bound d=2 for <= 5 edges, 1 for <= 8, else 0") +
          "; uniform full-support target; search limits 25 and 1; multi-swap limits 1 (and 2)"
          for t in PLAN}
ASSUMPTIONS = ["a state is the order-insensitive annotated graph; every transition is executed from its canonical "
               "construction (sorted nodes and edges)",
               "failed / rejected proposals leave the state unchanged - checked at every cut, which is what makes "
               "longer failing prefixes redundant",
               "the default convergence limit (10*|E|) is checked at construction; swap histories of any length are "
               "paths of the explored state graph, multi-swap runs inside one call are explored for limits 1 and 2"]


SCENARIOS = [
    # name, topology set, N, motifs [(topology index, vertices)]
    ("two-triangles-one-with-pendants", "c2+c3", 9,
     [(1, (0, 1, 2)), (1, (3, 4, 5)), (0, (0, 6)), (0, (1, 7)), (0, (2, 8))]),
    ("shared-vertex-triangles+decorated-triangle", "c2+c3", 11,
     [(1, (0, 1, 2)), (1, (2, 3, 4)), (1, (5, 6, 7)), (0, (5, 8)), (0, (6, 9)), (0, (7, 10))]),
    ("hubs-and-leaves", "c2", 8, [(0, (1, 0)), (0, (1, 3)), (0, (1, 4)), (0, (2, 5)), (0, (2, 6)), (0, (6, 7))]),
    ("two-4-cycles-one-decorated", "c2+cyc4", 12,
     [(1, (0, 1, 2, 3)), (1, (4, 5, 6, 7)), (0, (0, 8)), (0, (1, 9)), (0, (2, 10)), (0, (3, 11))]),
    ("two-4-cliques-one-decorated", "c2+c4", 12,
     [(1, (0, 1, 2, 3)), (1, (4, 5, 6, 7)), (0, (0, 8)), (0, (1, 9)), (0, (2, 10)), (0, (3, 11))]),
    ("blue-red-trees", "blue+red", 7,
     [(0, (0, 1)), (0, (1, 2)), (0, (3, 4)), (1, (1, 5)), (1, (4, 6)), (1, (2, 3))]),
    # motifs with 4 corner edges, with corners of different sizes, odd cycles, cycles sharing two vertices, 3 topologies
    ("two-5-cliques-one-decorated", "c2+c5", 15,
     [(1, (0, 1, 2, 3, 4)), (1, (5, 6, 7, 8, 9)), (0, (0, 10)), (0, (1, 11)), (0, (2, 12)), (0, (3, 13)), (0, (4, 14))]),
    ("two-diamonds-one-decorated", "c2+dia", 12,
     [(1, (0, 1, 2, 3)), (1, (4, 5, 6, 7)), (0, (0, 8)), (0, (1, 9)), (0, (2, 10)), (0, (3, 11))]),
    ("two-5-cycles-one-decorated", "c2+cyc5", 15,
     [(1, (0, 1, 2, 3, 4)), (1, (5, 6, 7, 8, 9)), (0, (0, 10)), (0, (1, 11)), (0, (2, 12)), (0, (3, 13)), (0, (4, 14))]),
    ("4-cycles-sharing-two-vertices+decorated-cycle", "c2+cyc4", 14,
     [(1, (0, 1, 2, 3)), (1, (0, 4, 2, 5)), (1, (6, 7, 8, 9)), (0, (6, 10)), (0, (7, 11)), (0, (8, 12)), (0, (9, 13))]),
    ("three-topologies", "c2+c3+red", 11,
     [(1, (0, 1, 2)), (1, (3, 4, 5)), (0, (0, 6)), (0, (1, 7)), (2, (2, 8)), (2, (0, 9)), (0, (9, 10)), (2, (6, 7))]),
    ("three-triangles-two-decorated", "c2+c3", 12,
     [(1, (0, 1, 2)), (1, (3, 4, 5)), (1, (6, 7, 8)), (0, (0, 9)), (0, (1, 10)), (0, (2, 11)), (0, (3, 9)),
      (0, (4, 10)), (0, (5, 11))]),
]
SCENARIO_CAP = {"quick": 40, "thorough": 3000}


def instances(tier, seed):
    for inst in _instances(tier, seed):
        inst["seed"] = seed
        yield inst


def _instances(tier, seed):
    for i, sc in enumerate(SCENARIOS):
        # N + 1: every scenario also has one isolated vertex (joint degree all zeros)
        yield {"kind": "scenario", "index": i, "name": sc[0], "tset": sc[1], "N": sc[2] + 1,
               "placement": [[k, list(vs)] for k, vs in sc[3]]}
    for name in CUSTOM_STATES:
        yield {"kind": "scenario", "index": -1, "name": name, "tset": "custom:" + name, "N": 0, "placement": []}
    # the same scenario networks with list-valued vertex annotations (a joint degree stored as a list is as valid an
    # annotation as a tuple; the library itself produced lists before commit 8e8ac93)
    for i in (0, 2):
        sc = SCENARIOS[i]
        yield {"kind": "scenario", "index": i, "name": sc[0] + " (list annotations)", "tset": sc[1], "N": sc[2] + 1,
               "placement": [[k, list(vs)] for k, vs in sc[3]], "annotations": "list"}
    sc = SCENARIOS[0]
    yield {"kind": "scenario", "index": 0, "name": sc[0] + " (numpy-array annotations)", "tset": sc[1], "N": sc[2] + 1,
           "placement": [[k, list(vs)] for k, vs in sc[3]], "annotations": "numpy"}
    for tset, N, minm, maxm in PLAN[tier]:
        tops = netgen.TOPOLOGY_SETS[tset]
        batch = []
        for pl in netgen.placements(N, tops, max_motifs=maxm, min_motifs=minm):
            used = {v for _, vs, _ in pl for v in vs}
            if max(used) != N - 1 and N > 4:
                continue  # the same network occurs in the smaller-N enumeration plus isolated vertices
            batch.append([[k, list(vs)] for k, vs, _ in pl])
            if len(batch) >= 12:
                yield {"kind": "box", "tset": tset, "N": N, "placements": batch}
                batch = []
        if batch:
            yield {"kind": "box", "tset": tset, "N": N, "placements": batch}


def orbit_labelled_diamonds():
    """Two diamonds whose five edges carry TWO topology names (four 'rim' edges, one 'chord': orbit-labelled motifs,
    as the custom-motif generator produces them), decorated with pendant 2-cliques, plus one isolated vertex.
    A vertex's joint degree counts, per topology name, the motifs in which it has an edge of that name."""
    names = ["2-clique", "rim", "chord"]

    def diamond(a, b, c, d):
        return [((b, c), "chord")] + [(e, "rim") for e in [(a, b), (a, c), (d, b), (d, c)]]
    motifs = [diamond(0, 1, 2, 3), diamond(5, 4, 6, 7)]
    nxt = 8
    for v, k in {1: 1, 2: 2, 3: 3, 4: 2, 5: 4, 7: 1}.items():
        for _ in range(k):
            motifs.append([((v, nxt), "2-clique")])
            nxt += 1
    nodes = []
    for n in range(nxt + 1):
        jd = [0, 0, 0]
        for es in motifs:
            for top in {t for e, t in es if n in e}:
                jd[names.index(top)] += 1
        nodes.append((n, tuple(jd)))
    edges = [(min(a, b), max(a, b), top, mid) for mid, es in enumerate(motifs) for (a, b), top in es]
    return (tuple(nodes), tuple(sorted(edges))), names


def large_int_labels(tset, N, placement):
    """A scenario whose vertices are called 1000, 1001, ...: every occurrence of a label in the node list and in the
    edge list is a separate int object (equal, not identical), as in any network with more than 257 vertices."""
    def make():
        state, names = initial_state(tset, N, placement)
        return mcmc.relabel_state(state, lambda v: int(str(1000 + v))), names
    return make


CUSTOM_STATES = {
    "orbit-labelled-diamonds": orbit_labelled_diamonds,
    # 2-cliques forming hubs and leaves (motifs share vertices), and triangles sharing a vertex; one isolated vertex
    "large-int-labels:hubs-and-leaves": large_int_labels(
        "c2", 9, [[0, [1, 0]], [0, [1, 3]], [0, [1, 4]], [0, [2, 5]], [0, [2, 6]], [0, [6, 7]]]),
    "large-int-labels:shared-vertex-triangles": large_int_labels(
        "c2+c3", 12, [[1, [0, 1, 2]], [1, [2, 3, 4]], [1, [5, 6, 7]], [0, [5, 8]], [0, [6, 9]], [0, [7, 10]]]),
}


def _np_array(jd):
    import numpy as np
    return np.array(jd)


def initial_state(tset, N, placement):
    if tset.startswith("custom:"):
        return CUSTOM_STATES[tset.split(":", 1)[1]]()
    tops = netgen.TOPOLOGY_SETS[tset]
    pl = [(k, tuple(vs), netgen.motif_edges(tops[k][2], vs)) for k, vs in placement]
    net, jds, rows = netgen.build_network(N, tops, pl)
    return mcmc.coarse(net.G), [t[0] for t in tops]


def report(res, desc, problems, prop, extra="", step=None, ctx=None):
    for p in problems:
        pprop, key, msg, choices = p[:4]
        if pprop != prop:
            continue
        snippet = None
        if step is not None and ctx is not None and tuple(choices) in step.calls:
            state, names, target, conv, sl = ctx
            snippet = mcmc.standalone_snippet(state, names, target, conv, sl, step.calls[tuple(choices)])
        res.violation(key, f"{desc['tset']} N={desc['N']} motifs={desc['placement']} {extra}draws {choices}: {msg}",
                      desc, choices=choices, extra=extra, snippet=snippet)


def check_configs(res, desc, state, names):
    """Constructor with and without the optional limits."""
    from gcmpy.network.network import Network
    from gcmpy.tools.markov_chain_monte_carlo_rewiring import MarkovChainMonteCarloRewiring
    from gcmpy.names.tools_names import ToolsNames as TN
    import networkx as nx
    target = mcmc.make_target(state, names, "uniform")
    nE = len(state[1])
    for with_conv in (False, True):
        for with_search in (False, True):
            net = Network()
            net.G = mcmc.build_state_graph(state, nx.Graph)
            params = {TN.NETWORK: net, TN.EJKS: mcmc.target_object(target, names)}
            if with_conv:
                params[TN.CONVERGENCE_LIMIT] = 7
            if with_search:
                params[TN.SEARCH_LIMIT] = 2
            res.executions += 1
            try:
                mc = MarkovChainMonteCarloRewiring(params)
                lim, sl = mc.convergence_limit, mc.search_limit
            except Exception as e:
                res.violation("C11:config-constructor-raises",
                              f"constructor with convergence_limit {'given' if with_conv else 'omitted'}, search_limit "
                              f"{'given' if with_search else 'omitted'} raised {e!r}", desc,
                              with_conv=with_conv, with_search=with_search)
                continue
            # given limits must be honoured; defaults must be usable loop bounds (the property does not fix their
            # values, the code documents 10 * |E| and 25)
            ok_int = isinstance(lim, int) and not isinstance(lim, bool)
            if not ok_int or (with_conv and lim != 7) or (not with_conv and lim < 0):
                res.violation("C11:config-default-limit", f"convergence limit is {lim!r} "
                              f"({'given 7' if with_conv else 'default'})", desc)
            ok_int = isinstance(sl, int) and not isinstance(sl, bool)
            if not ok_int or (with_search and sl != 2) or (not with_search and sl < 1):
                res.violation("C11:config-search-limit", f"search limit is {sl!r} "
                              f"({'given 2' if with_search else 'default'})", desc)


def run_scenario(inst, tier):
    res = Result()
    desc = {"tset": inst["tset"], "N": inst["N"], "placement": inst["placement"], "name": inst["name"]}
    state, names = initial_state(inst["tset"], inst["N"], inst["placement"])
    target = mcmc.make_target(state, names, "uniform")
    d = 0
    mcmc.ANNOTATION_TYPE[0] = {"list": list, "numpy": _np_array}.get(inst.get("annotations"), tuple)
    try:
        seen, graph, problems, stats = mcmc.closure(state, names, target, d, cap=SCENARIO_CAP[tier])
    finally:
        mcmc.ANNOTATION_TYPE[0] = tuple
    res.executions += stats["leaves"]
    res.states += len(graph)
    res.transitions += stats["transitions"]
    res.revalidated += stats["rechecked"]
    res.count("runs_cut_at_deviation_bound", stats["cut"])
    res.count(f"scenario_closure_states:{inst['name']}", len(seen))
    if stats["capped"]:
        res.count("scenario_closures_capped")
        res.truncated += 1
    for p in problems:
        pprop, key, msg, choices, hist = p
        if pprop == "C11":
            res.violation(key, f"scenario {inst['name']} motifs={inst['placement']} after accepted swaps {hist} then "
                          f"draws {choices}: {msg}", desc, history=hist, choices=choices)
    # the same initial network inserted in other orders (adjacency order is not part of the canonical state)
    if not [p for p in problems if p[1] != mcmc.KNOWN_CROSSED]:
        for order in ("reversed", 1 + inst.get("seed", 0)):
            mcmc.EDGE_ORDER[0] = order
            try:
                ro = mcmc.explore_step(state, state, mcmc.motif_shapes(state), names, target, 0)
            finally:
                mcmc.EDGE_ORDER[0] = None
            res.executions += ro.leaves
            res.revalidated += ro.rechecked
            report(res, desc, ro.problems, "C11", f"edge insertion order {order!r} ")
            if set(ro.successors) != set(graph.get(state, [])):
                res.count("scenarios_whose_successor_set_depends_on_insertion_order")
    # the same initial network handed to a rewiring object that has already rewired another network over the same
    # vertex labels (network / ejks replaced through the public setters)
    if len(seen) >= 2 and not [p for p in problems if p[1] != mcmc.KNOWN_CROSSED] \
            and inst.get("annotations") is None:
        mcmc.REUSED_OBJECT[0] = True
        try:
            ru = mcmc.explore_step(state, state, mcmc.motif_shapes(state), names, target, 0)
        finally:
            mcmc.REUSED_OBJECT[0] = False
        res.executions += ru.leaves
        res.revalidated += ru.rechecked
        report(res, desc, ru.problems, "C11", "second rewire() of a reused object ")
        res.flags.add("reused-object")
        if set(ru.successors) != set(graph.get(state, [])):
            res.violation("C11:reused-object-behaves-differently",
                          f"scenario {inst['name']}: the accepted-swap successors of the second rewire() on a reused "
                          f"object differ from those of a fresh object ({len(ru.successors)} vs "
                          f"{len(graph.get(state, []))})", desc)
    if len(seen) >= 2:
        res.nontrivial.add(inst["name"])
        res.flags.add("has-successor")
        res.flags.add("scenario-closure>=2")
    if len(seen) >= 10:
        res.flags.add("closure>=10")
    if (any(k == 1 for k, _ in inst["placement"]) or inst["tset"].startswith("custom:")) and len(seen) >= 2 \
            and inst["tset"] != "blue+red":
        res.flags.add("multi-edge-motif-swapped")
    if all(p[1] == mcmc.KNOWN_CROSSED for p in problems) and tier == "thorough":
        r = mcmc.explore_step(state, state, mcmc.motif_shapes(state), names, target, 1)
        res.executions += r.leaves
        report(res, desc, r.problems, "C11", "d=1 ")
    res.samples.append({"scenario": inst["name"], "motifs": inst["placement"], "closure_states": len(seen),
                        "accepted_swap_transitions": stats["transitions"],
                        "deepest_history_draws": max(seen.values(), key=len)})
    return res


def run_instance(inst, tier):
    if inst["kind"] == "scenario":
        return run_scenario(inst, tier)
    res = Result()
    for placement in inst["placements"]:
        desc = {"tset": inst["tset"], "N": inst["N"], "placement": placement}
        state, names = initial_state(inst["tset"], inst["N"], placement)
        shapes0 = mcmc.motif_shapes(state)
        target = mcmc.make_target(state, names, "uniform")
        nE = len(state[1])
        d = deviation_bound(tier, nE, len(names))
        r = mcmc.explore_step(state, state, shapes0, names, target, d)
        res.executions += r.leaves
        res.states += 1
        res.transitions += len(r.successors)
        res.revalidated += r.rechecked
        res.count("runs_cut_at_deviation_bound", r.cut)
        res.count(f"states_explored_with_d={d}")
        report(res, desc, r.problems, "C11", step=r, ctx=(state, names, target, 0, 25))
        res.extras.append((hash(state), [hash(t) for t in r.successors]))
        if r.successors:
            res.nontrivial.add(hash(state))
            res.flags.add("has-successor")
            if len(names) >= 2:
                res.flags.add("two-topologies")
        else:
            res.count("states_without_possible_swap")
        vsets = [set(vs) for _, vs in placement]
        if any(a & b for i, a in enumerate(vsets) for b in vsets[i + 1:]):
            res.flags.add("motifs-sharing-a-vertex")
        if all(p[1] == mcmc.KNOWN_CROSSED for p in r.problems):
            if nE <= 5:
                # search limit 1: different exit path of the inner search loop
                r1 = mcmc.explore_step(state, state, shapes0, names, target, d, search_limit=1)
                res.executions += r1.leaves
                res.revalidated += r1.rechecked
                report(res, desc, r1.problems, "C11", "search_limit=1 ", step=r1, ctx=(state, names, target, 0, 1))
            if nE <= 3 or (nE == 4 and r.successors):
                # an exhausted partner search (all search_limit + 1 candidates unsuitable) AFTER a successful one:
                # either in a second proposal of the same call (3 extra draws) or after an accepted swap
                for conv, dd in ((0, 3), (1, 1)):
                    rx = mcmc.explore_step(state, state, shapes0, names, target, dd, search_limit=1, conv_limit=conv,
                                           max_leaves=3_000_000)
                    res.executions += rx.leaves
                    res.revalidated += rx.rechecked
                    report(res, desc, rx.problems, "C11", f"search_limit=1 convergence_limit={conv} ", step=rx,
                           ctx=(state, names, target, conv, 1))
                    res.flags.add("exhausted-search-after-success")
            if r.successors and nE <= (4 if tier == "quick" else 5):
                for limit in ((1,) if tier == "quick" or nE > 4 else (1, 2)):
                    rm = mcmc.explore_step(state, state, shapes0, names, target, 0, conv_limit=limit,
                                           max_leaves=3_000_000)
                    res.executions += rm.leaves
                    res.revalidated += rm.rechecked
                    res.count(f"multi_swap_runs_returned_limit_{limit}", rm.returned)
                    report(res, desc, rm.problems, "C11", f"convergence_limit={limit} ", step=rm,
                           ctx=(state, names, target, limit, 25))
                    res.flags.add("multi-swap")
        check_configs(res, desc, state, names)
        if len(r.successors) >= 3 and not res.samples:
            t, (choices, calls) = next(iter(r.successors.items()))
            res.samples.append({"topologies": names, "N": inst["N"], "motifs": placement,
                                "accepted_swap_successors": len(r.successors),
                                "one_transition": {"draws": choices, "edges_after": [list(e) for e in t[1]]}})
        if len(res.violations) >= 8:
            break
    return res


def finalize(agg, tier):
    # closure statistics of the explored state graph
    import networkx as nx
    g = nx.DiGraph()
    for s, succ in agg.extras:
        g.add_node(s)
        for t in succ:
            g.add_edge(s, t)
    explored = {s for s, _ in agg.extras}
    outside = [t for t in g.nodes if t not in explored]
    comps = list(nx.weakly_connected_components(g))
    agg.counters["state_graph_nodes"] = g.number_of_nodes()
    agg.counters["state_graph_edges"] = g.number_of_edges()
    agg.counters["largest_swap_connected_component"] = max((len(c) for c in comps), default=0)
    agg.counters["components_with_at_least_2_states"] = sum(1 for c in comps if len(c) >= 2)
    agg.counters["successor_states_outside_explored_box"] = len(outside)
    agg.extras = []
    if agg.violations:
        return []
    need = ["has-successor", "two-topologies", "motifs-sharing-a-vertex", "multi-swap"]
    out = [f"vacuous exploration: {f} never seen" for f in need if f not in agg.flags]
    for f in ("closure>=10", "multi-edge-motif-swapped"):
        if f not in agg.flags:
            out.append(f"vacuous exploration: {f} never seen")
    return out


def replay(v):
    inst = v["instance"]
    state, names = initial_state(inst["tset"], inst["N"], inst["placement"])
    shapes0 = mcmc.motif_shapes(state)
    target = mcmc.make_target(state, names, "uniform")
    extra = v.get("extra", "")
    import re
    m = re.search(r"convergence_limit=(\d+)", extra)
    conv = int(m.group(1)) if m else 0
    sl = 1 if "search_limit=1" in extra else 25
    registry = mcmc.Registry()
    initial = state
    for choices in v.get("history", []):
        lf = engine.execute_plain(lambda: mcmc.run_rewire(state, names, target, 0, 25, registry)[1], choices,
                                  max_points=60)
        state = mcmc.coarse(lf.outcome)
        print("accepted swap via draws", choices, "->", state[1])
    leaf = engine.execute_plain(lambda: mcmc.run_rewire(state, names, target, conv, sl, registry)[1], v["choices"],
                                max_points=len(v["choices"]) + 1)
    print("initial edges:", initial[1])
    print("draws", v["choices"], "exception:", leaf.exception, "cut:", leaf.cut)
    if leaf.outcome is not None:
        post = mcmc.coarse(leaf.outcome)
        print("returned edges:", post[1])
        probs = mcmc.check_state_invariants(initial, shapes0, post, names, target, pre=state if conv == 0 else None)
        for p in probs:
            print(p)
        return 1 if probs else 0
    return 1 if leaf.exception is not None else 0
