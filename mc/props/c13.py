"""C13 - mixing matrices extracted from a network are exact, symmetric and repeatable."""
import itertools
from fractions import Fraction

from mc import netgen
from mc.framework import Result

ID = "C13"
LEVEL = "model_checking"
BATCH = 1
RULE = ("every clean annotated network = every edge-disjoint placement of the topology set's motifs on N labelled "
        "vertices (built by the real converter), for 6 topology sets; on one extractor object every history of 1..3 "
        "get_ejks() calls (thorough: all interleavings of length <= 4 with a second extractor over another network); "
        "every returned matrix is compared with the edge-end count computed from scratch; non-trivial = network "
        "with >= 2 distinct excess tuples in some topology")
BOUNDS = {"quick": "c2, c2+c3 on N<=5 (all), c3 / c2+c3 on N=6 with <= 4 motifs, blue+red N<=4, blue+c3+red N<=5 (<= 4 motifs), c2+cyc4 N<=5 (<= 4 motifs); histories of length <= 3",
          "thorough": "c2+c3 on N<=6 with <= 6 motifs; 3-topology sets on N<=5 with <= 5 motifs; interleavings"}
ASSUMPTIONS = ["clean networks only (no self-loop, no repeated pair), so annotations equal real motif degrees",
               "float tolerance 1e-12"]
TOL = 1e-12

PLAN = {
    "quick": [("c2", 5, None), ("c3", 6, 4), ("c2+c3", 5, None), ("c2+c3", 6, 4), ("blue+red", 4, None),
              ("blue+c3+red", 4, None), ("blue+c3+red", 5, 4), ("c2+cyc4", 5, 4), ("c3+c2", 5, 5)],
    "thorough": [("c2", 5, None), ("c3", 6, None), ("c2+c3", 5, None), ("c2+c3", 6, 6), ("blue+red", 4, None),
                 ("blue+c3+red", 5, 5), ("c2+cyc4", 5, 5), ("c3+c2", 5, None)],
}


def instances(tier, seed):
    for tset, N, maxm in PLAN[tier]:
        tops = netgen.TOPOLOGY_SETS[tset]
        batch = []
        for pl in netgen.placements(N, tops, max_motifs=maxm):
            batch.append(pl)
            if len(batch) >= 150:
                yield {"tset": tset, "N": N, "placements": batch}
                batch = []
        if batch:
            yield {"tset": tset, "N": N, "placements": batch}


def expected(N, tops, jds, rows):
    """name -> {key: Fraction}, and excess keys per topology."""
    names = [t[0] for t in tops]
    ejks = {n: {} for n in names}
    counts = {n: 0 for n in names}
    for e, name, _ in rows:
        counts[name] += 1
    for (u, v), name, _ in rows:
        i = names.index(name)
        a = tuple(x - (1 if j == i else 0) for j, x in enumerate(jds[u]))
        b = tuple(x - (1 if j == i else 0) for j, x in enumerate(jds[v]))
        w = Fraction(1, 2 * counts[name])
        ejks[name][a + b] = ejks[name].get(a + b, 0) + w
        ejks[name][b + a] = ejks[name].get(b + a, 0) + w
    keys = {}
    for i, n in enumerate(names):
        keys[n] = {tuple(x - (1 if j == i else 0) for j, x in enumerate(jd)) for jd in jds if jd[i] > 0}
    return ejks, keys


def compare(m, want_ejks, want_keys, names):
    try:
        got = m.ejks
        gk = m.excess_degree_keys
    except Exception as e:
        return ("C13:result", f"result object unusable: {e!r}")
    for n in names:
        g = got.get(n)
        w = want_ejks[n]
        if g is None:
            return ("C13:missing-topology", f"no matrix for topology {n}")
        if set(g) != set(w):
            return ("C13:keys", f"{n}: keys {sorted(g)} != expected {sorted(w)}")
        for k in w:
            if abs(g[k] - float(w[k])) > TOL:
                tot = sum(g.values())
                return ("C13:values" if abs(tot - 1) < 1e-9 or not w else "C13:values-not-normalised",
                        f"{n}: e{k} = {g[k]}, expected {w[k]} (matrix sums to {tot})")
        for k in g:
            h = len(k) // 2
            if abs(g[k] - g[k[h:] + k[:h]]) > TOL:
                return ("C13:asymmetric", f"{n}: e{k} != e{k[h:] + k[:h]}")
        if set(map(tuple, gk.get(n, []))) != want_keys[n]:
            return ("C13:excess-keys", f"{n}: excess keys {sorted(gk.get(n, []))} != {sorted(want_keys[n])}")
    return None


def plain_expected(rows, N):
    deg = [0] * N
    for (u, v), _, _ in rows:
        deg[u] += 1
        deg[v] += 1
    E = len(rows)
    out = {}
    for (u, v), _, _ in rows:
        a, b = deg[u] - 1, deg[v] - 1
        out[(a, b)] = out.get((a, b), 0) + Fraction(1, 2 * E)
        out[(b, a)] = out.get((b, a), 0) + Fraction(1, 2 * E)
    return out


def run_instance(inst, tier):
    from gcmpy.tools.joint_excess_joint_degree import JointExcessJointDegree
    from gcmpy.tools.joint_excess_degree import JointExcessDegree
    from gcmpy.names.tools_names import ToolsNames as TN
    res = Result()
    tops = netgen.TOPOLOGY_SETS[inst["tset"]]
    names = [t[0] for t in tops]
    N = inst["N"]
    prev = None
    for pl, variant in [(pl, v) for pl in inst["placements"] for v in (None, "reversed-insertion", "string-labels", "large-int-labels", "list-annotations")]:
        if variant and len(pl) > (4 if variant == "reversed-insertion" else (3 if variant in ("large-int-labels", "list-annotations") else 2)):
            continue
        net, jds, rows = netgen.build_network(N, tops, pl, relabel=variant)
        want_ejks, want_keys = expected(N, tops, jds, rows)
        desc = {"tset": inst["tset"], "N": N, "placement": [[k, list(vs)] for k, vs, _ in pl]}
        # histories of repeated extraction on ONE object
        try:
            # equal names, but other str objects than the ones stored on the edges
            ex = JointExcessJointDegree({TN.NETWORK: net.G, TN.EDGE_NAMES: ["".join(list(n)) for n in names]})
        except Exception as e:
            res.violation("C13:constructor", f"{desc}: constructor raised {e!r}", desc)
            continue
        res.states += 1
        from gcmpy.names.network_names import NetworkNames as _NN
        annotations = {n: (type(net.G.nodes[n][_NN.JOINT_DEGREE]), list(net.G.nodes[n][_NN.JOINT_DEGREE]))
                       for n in net.G.nodes()}
        for call in range(1, 4):
            res.executions += 1
            res.transitions += 1
            try:
                m = ex.get_ejks()
                bad = compare(m, want_ejks, want_keys, names)
                if bad is None:
                    now = {n: (type(net.G.nodes[n][_NN.JOINT_DEGREE]), list(net.G.nodes[n][_NN.JOINT_DEGREE]))
                           for n in net.G.nodes()}
                    if now != annotations:
                        bad = ("C13:network-annotations-changed", "extraction changed the vertex annotations of the "
                               f"network: {[(n, now[n][1]) for n in now if now[n] != annotations[n]][:3]}")
                if bad is None and call == 2:
                    # the caller empties the matrices it was handed: the next extraction must not depend on them
                    for n in names:
                        m.ejks[n].clear()
            except Exception as e:
                bad = ("C13:raises", repr(e))
            if bad:
                key = bad[0] + (":repeat-call" if call > 1 else "")
                res.violation(key, f"{inst['tset']} N={N} jds={jds} rows={rows} call #{call} on one extractor: "
                              f"{bad[1]}", desc, call=call)
                break
        # interleaving with a second extractor (other network)
        if prev is not None and (tier == "thorough" or len(pl) <= 3):
            pnet, pwant, pkeys = prev
            for pattern in itertools.product("AB", repeat=3):
                a = JointExcessJointDegree({TN.NETWORK: net.G, TN.EDGE_NAMES: list(names)})
                b = JointExcessJointDegree({TN.NETWORK: pnet.G, TN.EDGE_NAMES: list(names)})
                for step, who in enumerate(pattern):
                    res.executions += 1
                    res.transitions += 1
                    m = (a if who == "A" else b).get_ejks()
                    bad = compare(m, *((want_ejks, want_keys) if who == "A" else (pwant, pkeys)), names)
                    if bad:
                        res.violation(bad[0] + ":interleaved", f"{inst['tset']} N={N} pattern {pattern} step "
                                      f"{step}: {bad[1]}", desc, pattern=list(pattern))
                        break
        prev = (net, want_ejks, want_keys)
        # overall-degree variant
        res.executions += 1
        try:
            g = JointExcessDegree.get_ejk(net.G)
            w = plain_expected(rows, N)
            if set(g) != set(w) or any(abs(g[k] - float(w[k])) > TOL for k in w):
                res.violation("C13:plain-degree", f"{inst['tset']} N={N} rows={rows}: overall-degree matrix {g} != "
                              f"{({k: str(v) for k, v in w.items()})}", desc)
        except Exception as e:
            if rows:
                res.violation("C13:plain-degree-raises", f"{desc}: {e!r}", desc)
        if any(len(want_keys[n]) >= 2 for n in names):
            res.nontrivial.add((inst["tset"], N, tuple((k, vs) for k, vs, _ in pl)))
        for n in names:
            if any(k[:len(k) // 2] == k[len(k) // 2:] for k in want_ejks[n]):
                res.flags.add("self-paired-class")
        if len(names) >= 3:
            res.flags.add("three-topologies")
        if len(res.violations) >= 10:
            break
    if not res.samples and inst["placements"]:
        pl = inst["placements"][-1]
        res.samples.append({"topologies": names, "N": N, "motifs": [[names[k], list(vs)] for k, vs, _ in pl],
                            "history": "get_ejks() x3 on one extractor"})
    return res


def finalize(agg, tier):
    if agg.violations:
        return []
    return [f"vacuous exploration: {f} never seen" for f in ("self-paired-class", "three-topologies")
            if f not in agg.flags]


def replay(v):
    inst = v["instance"]
    tops = netgen.TOPOLOGY_SETS[inst["tset"]]
    pl = [(k, tuple(vs), netgen.motif_edges(tops[k][2], vs)) for k, vs in inst["placement"]]
    r = run_instance({"tset": inst["tset"], "N": inst["N"], "placements": [pl]}, "quick")
    for x in r.violations:
        print(x["key"], x["message"][:800])
    return 1 if r.violations else 0
