"""C12 - MCMC rewiring only creates pairings the target allows and approaches the target."""
import itertools
from fractions import Fraction

from mc import engine, mcmc, netgen
from mc.framework import Result
from mc.props import c11

ID = "C12"
LEVEL = "model_checking"
BATCH = 1
RULE = ("hard rule: for every clean network of the box that has an accepted-swap successor, and for the closures of "
        "the scenario catalogue, the real rewire() (one accepted swap, all RNG resolutions, deviation bound d) is "
        "explored under the full-support targets and under every target obtained by deleting or zeroing one (and, for "
        "small cases, two) symmetric off-diagonal pairings that no current edge uses; every created edge must join "
        "classes with strictly positive target weight.  approach: for single-topology scenarios one proposal "
        "iteration is explored completely from every state of the closure (guarded hook cuts at the loop head), "
        "giving the exact accepted-swap Markov chain; the expected L1 distance to the target after 1..21 accepted "
        "swaps is computed exactly (vector-matrix products); non-trivial = (state, target) with >= 1 successor")
BOUNDS = {"quick": "box of C11 (quick); scenario closures capped at 40 states; exact chains on 3 single-topology "
                   "scenarios (19, 88, 9 states) x strongly assortative / disassortative / graded targets, every state of the closure as initial state",
          "thorough": "box of C11 (thorough); closures capped at 3000; exact chains on 9 scenarios (up to 1144 states) "
                      "x 3 targets (search limits 1, 2 on the three smallest)"}
ASSUMPTIONS = ["the Metropolis formula itself is not prescribed by the property: thresholds observed through the "
               "symbolic uniform are logged as diagnostics only",
               "'approaches the target' is asserted only on instances where a reference chain (real proposal kernel, "
               "documented acceptance ratio) decreases the expected L1 distance by at least 10%",
               "behaviour is invariant under renaming of motif ids (they are only compared for equality)",
               "i.i.d. restart of proposal iterations: a failed iteration leaves the state unchanged (checked in C11)"]

def _c2(edges):
    return [(0, tuple(e)) for e in edges]


DTMC_SCENARIOS = [
    # (name, topology set, N, motifs, tiers); chosen by a scan over 7-vertex 6-edge networks for closures in which an
    # inverted acceptance rule would fail the oracle from many initial states (see DESIGN.md, C12)
    ("deg123-7", "c2", 7, _c2([(0, 3), (1, 3), (2, 3), (3, 4), (4, 5), (5, 6)]), ("quick", "thorough")),
    ("scan-88", "c2", 7, _c2([(0, 3), (1, 3), (1, 6), (2, 4), (2, 5), (3, 4)]), ("quick", "thorough")),
    ("hubs-and-leaves-7", "c2", 7, _c2([(1, 0), (1, 3), (1, 4), (2, 5), (2, 6)]), ("quick", "thorough")),
    ("scan-136", "c2", 7, _c2([(0, 1), (0, 4), (2, 5), (3, 4), (3, 5), (3, 6)]), ("thorough",)),
    ("scan-132", "c2", 7, _c2([(0, 4), (0, 5), (1, 3), (2, 3), (3, 6), (5, 6)]), ("thorough",)),
    ("scan-147", "c2", 7, _c2([(0, 2), (0, 3), (0, 4), (1, 6), (4, 5), (5, 6)]), ("thorough",)),
    ("path+stars-8", "c2", 8, _c2([(0, 4), (1, 4), (2, 5), (3, 5), (5, 6), (6, 7), (4, 7)]), ("thorough",)),
    ("deg123-8", "c2", 8, _c2([(0, 4), (1, 4), (2, 4), (3, 5), (5, 6), (6, 7), (4, 5)]), ("thorough",)),
    ("three-stars-8", "c2", 8, _c2([(1, 0), (1, 3), (2, 4), (2, 5), (2, 6), (6, 7)]), ("thorough",)),
]


def instances(tier, seed):
    for inst in c11.instances(tier, seed):
        inst = dict(inst)
        if inst["kind"] == "scenario":
            # one instance per (scenario, target variant)
            state, names = c11.initial_state(inst["tset"], inst["N"], inst["placement"])
            big = len(state[1]) >= 18
            medium = len(state[1]) >= 12
            n_removed = 0
            for tname, _ in target_variants(state, names, tier, False):
                if "+" in tname and tier == "quick":
                    continue
                if big and tier == "quick" and tname.startswith(("zeroed", "graded")):
                    continue
                if medium and tier == "quick" and tname.startswith("removed"):
                    n_removed += 1
                    if n_removed > (2 if big else 4):
                        continue
                yield dict(inst, target=tname)
            continue
        yield inst
    for name, tset, N, motifs in COLLISION_SCENARIOS:
        placement = [[k, list(vs)] for k, vs in motifs]
        state, names = c11.initial_state(tset, N, placement)
        for tname, _ in target_variants(state, names, tier, False):
            if tname.startswith(("removed", "zeroed")) and "+" not in tname:
                for order in ("names", "reversed"):
                    yield {"kind": "collision", "name": name, "tset": tset, "N": N, "placement": placement,
                           "target": tname, "dict_order": order}
    # exact chains for scenarios with multi-edge corners (thorough only). With two topologies one proposal iteration
    # contains an unbounded free-retry loop (partner of another topology): the inner-loop hook cuts it and the surviving
    # leaves are re-weighted exactly (checked: re-weighted probabilities sum to 1). On these scenarios (two excess classes
    # per topology) the accepted-swap chain turned out to be insensitive to the acceptance rule - no admitted initial
    # state distinguishes the documented ratio from its inverse - so they add coverage of the chain construction, not
    # detection power for acceptance errors on multi-edge corners (see DESIGN.md section 13, "Not detected").
    if tier == "thorough":
        for name in ("two-triangles-one-with-pendants", "three-triangles-two-decorated", "two-diamonds-one-decorated",
                     "two-4-cliques-one-decorated"):
            sc = [x for x in c11.SCENARIOS if x[0] == name][0]
            for kind in ("strong-assortative", "strong-disassortative"):
                yield {"kind": "dtmc-multi", "name": sc[0], "tset": sc[1], "N": sc[2],
                       "placement": [[k, list(vs)] for k, vs in sc[3]], "target_kind": kind, "search_limit": 1}
    for i, sc in enumerate(DTMC_SCENARIOS):
        if tier not in sc[4]:
            continue
        kinds = ("strong-assortative", "strong-disassortative", "graded")
        if tier == "quick" and i == 1:
            kinds = kinds[:2]
        for kind in kinds:
            for sl in ((1, 2) if (i == 0 or (tier == "thorough" and i < 3)) else (1,)):
                yield {"kind": "dtmc", "name": sc[0], "tset": sc[1], "N": sc[2],
                       "placement": [[k, list(vs)] for k, vs in sc[3]], "target_kind": kind, "search_limit": sl}


# Two-topology scenarios in which the SAME excess-key tuple occurs in both topologies' matrices with different
# support: classes Q=(0,2), P=(1,1), R=(2,0) (blue, red); blue excess of P = red excess of Q = (0,1), blue excess of
# R = red excess of P = (1,0), so the blue pairing P-R and the red pairing Q-P share the key ((0,1),(1,0)).
# Explored from the initial state with d = 2 (a complete rejected proposal followed by a second proposal in the
# same call), which is what exposes state carried from one topology's proposal into another's.
COLLISION_SCENARIOS = [
    ("key-collision-blue-red-10", "blue+red", 10,
     [(1, (0, 1)), (1, (0, 2)), (1, (1, 2)), (1, (3, 4)), (1, (5, 6)),
      (0, (3, 5)), (0, (4, 6)), (0, (7, 8)), (0, (7, 9)), (0, (8, 9))]),
    # classes X=(2,1) {0,1}, Y=(1,2) {2,3}, Z=(3,0) {4}: decrementing the WRONG component of X and Y gives (2,0) and
    # (1,1), which are genuine blue excess keys (of Z and X), so an index mix-up scores the forbidden blue pairing
    # X-Y as the allowed pairing Z-X
    ("index-collision-blue-red-8", "blue+red", 8,
     [(0, (0, 1)), (0, (0, 4)), (0, (1, 4)), (0, (2, 3)), (0, (4, 7)),
      (1, (0, 2)), (1, (1, 3)), (1, (2, 5)), (1, (3, 6))]),
]


def unused_pairs(state, names):
    """Symmetric off-diagonal (name, {a,b}) pairings of excess classes not used by any current edge."""
    keys = mcmc.excess_keys(state, names)
    used = set()
    jd = dict(state[0])
    for u, v, top, mid in state[1]:
        i = names.index(top)
        a = tuple(x - (1 if j == i else 0) for j, x in enumerate(jd[u]))
        b = tuple(x - (1 if j == i else 0) for j, x in enumerate(jd[v]))
        used.add((top, frozenset((a, b))))
    out = []
    for n in names:
        for a, b in itertools.combinations(keys[n], 2):
            p = (n, frozenset((a, b)))
            if p not in used:
                out.append(p)
        for a in keys[n]:
            p = (n, frozenset((a, a)))
            if p not in used:
                out.append(p)
    return out


def target_variants(state, names, tier, small):
    yield "uniform", mcmc.make_target(state, names, "uniform")
    yield "graded", mcmc.make_target(state, names, "graded")
    pairs = unused_pairs(state, names)
    for p in pairs:
        yield f"removed:{sorted(map(list, p[1]))}@{p[0]}", mcmc.make_target(state, names, "uniform", removed={p})
        yield f"zeroed:{sorted(map(list, p[1]))}@{p[0]}", mcmc.make_target(state, names, "graded", zeroed={p})
    if small or tier == "thorough":
        for p, q in itertools.combinations(pairs, 2):
            yield (f"removed:{sorted(map(list, p[1]))}@{p[0]}+zeroed:{sorted(map(list, q[1]))}@{q[0]}",
                   mcmc.make_target(state, names, "uniform", removed={p}, zeroed={q}))


def report(res, desc, problems, tname):
    for p in problems:
        pprop, key, msg, choices = p[:4]
        hist = p[4] if len(p) > 4 else []
        if pprop != "C12":
            continue
        res.violation(key, f"{desc['tset']} N={desc['N']} motifs={desc['placement']} target={tname} after accepted "
                      f"swaps {hist} then draws {choices}: {msg}", desc, choices=choices, history=hist, target=tname)


def run_box(inst, tier, res):
    for placement in inst["placements"]:
        desc = {"tset": inst["tset"], "N": inst["N"], "placement": placement}
        state, names = c11.initial_state(inst["tset"], inst["N"], placement)
        shapes0 = mcmc.motif_shapes(state)
        nE = len(state[1])
        d = c11.deviation_bound(tier, nE)
        base = mcmc.explore_step(state, state, shapes0, names, mcmc.make_target(state, names, "uniform"), d)
        res.executions += base.leaves
        res.revalidated += base.rechecked
        res.states += 1
        res.transitions += len(base.successors)
        report(res, desc, base.problems, "uniform")
        if not base.successors:
            res.count("states_without_possible_swap")
            continue
        created = set()
        for tname, target in target_variants(state, names, tier, nE <= 4):
            if tname == "uniform":
                continue
            # with >= 2 topologies a second complete proposal inside one call needs two extra draws (d = 2): this is
            # what exposes state carried from a proposal of one topology into a proposal of another
            dd = d if tname == "graded" else (2 if (len(names) >= 2 and nE <= (4 if tier == "quick" else 5)) else 0)
            # the matrices may be handed over in any dict order: alternate between the order of EDGE_NAMES and its
            # reverse (topology indices must come from EDGE_NAMES, not from the dict)
            mcmc.EJKS_DICT_ORDER[0] = ("reversed" if (len(names) >= 2 and res.counters.get("state_target_pairs", 0) % 2)
                                      else "names")
            try:
                r = mcmc.explore_step(state, state, shapes0, names, target, dd)
            finally:
                mcmc.EJKS_DICT_ORDER[0] = "names"
            res.executions += r.leaves
            res.revalidated += r.rechecked
            res.transitions += len(r.successors)
            res.count("state_target_pairs")
            report(res, desc, r.problems, tname)
            if r.successors:
                res.nontrivial.add((hash(state), tname))
            if tname.startswith(("removed", "zeroed")):
                res.flags.add("restricted-target")
                if len(r.successors) < len(base.successors):
                    res.flags.add("restriction-removes-a-swap")
                    res.count("restricted_targets_that_remove_a_swap")
        if len(res.violations) >= 8:
            break


def run_scenario(inst, tier, res):
    desc = {"tset": inst["tset"], "N": inst["N"], "placement": inst["placement"], "name": inst["name"]}
    state, names = c11.initial_state(inst["tset"], inst["N"], inst["placement"])
    cap = c11.SCENARIO_CAP[tier]
    for tname, target in target_variants(state, names, tier, False):
        if tname != inst.get("target", tname):
            continue
        mcmc.EJKS_DICT_ORDER[0] = "reversed" if (len(names) >= 2 and tname.startswith(("removed", "graded"))) \
            else "names"
        try:
            seen, graph, problems, stats = mcmc.closure(state, names, target, 0, cap=cap)
        finally:
            mcmc.EJKS_DICT_ORDER[0] = "names"
        res.executions += stats["leaves"]
        res.states += len(graph)
        res.transitions += stats["transitions"]
        res.revalidated += stats["rechecked"]
        res.count("state_target_pairs", len(graph))
        res.count("diagnostic_scenario_thresholds_seen", stats.get("thresholds_seen", 0))
        res.count("diagnostic_scenario_thresholds_differing_from_documented_ratio", stats.get("thresholds_off", 0))
        res.count(f"scenario_closure:{inst['name']}:{tname.split(':')[0]}", len(seen))
        for p in problems:
            pprop, key, msg, choices, hist = p
            if pprop == "C12":
                res.violation(key, f"scenario {inst['name']} target={tname} after accepted swaps {hist} then draws "
                              f"{choices}: {msg}", desc, history=hist, choices=choices, target=tname)
        if len(seen) >= 2:
            res.nontrivial.add((inst["name"], tname))
            if tname.startswith(("removed", "zeroed")):
                res.flags.add("restricted-target")
        if len(seen) >= 2 and tname != "uniform" and not res.violations:
            # history: the rewiring object has already rewired another network over the same vertex labels and was
            # then pointed at this network and this target through its setters (see mcmc.run_rewire)
            mcmc.REUSED_OBJECT[0] = True
            try:
                ru = mcmc.explore_step(state, state, mcmc.motif_shapes(state), names, target, 0)
            finally:
                mcmc.REUSED_OBJECT[0] = False
            res.executions += ru.leaves
            res.revalidated += ru.rechecked
            res.count("reused_object_second_calls_explored")
            for p in ru.problems:
                pprop, key, msg, choices = p[:4]
                if pprop == "C12":
                    res.violation(key, f"scenario {inst['name']} target={tname}, second rewire() of a reused object, "
                                  f"draws {choices}: {msg}", desc, history=[], choices=choices, target=tname,
                                  reused=True)
            if set(ru.successors) != set(graph.get(state, [])):
                res.violation("C12:reused-object-behaves-differently",
                              f"scenario {inst['name']} target={tname}: the second rewire() of a reused object has "
                              f"{len(ru.successors)} accepted-swap successors, a fresh object {len(graph.get(state, []))}",
                              desc, target=tname, reused=True)
        if res.violations:
            break
    res.samples.append({"scenario": inst["name"], "targets": "uniform, graded, every single deletion / zeroing of an "
                        "unused symmetric pairing"})


# ------------------------------------------------------------------ exact accepted-swap chain (needs the hook)
def norm_ids(state):
    """Rename motif ids by the rank of their smallest edge (states of the exact chain are taken modulo id names)."""
    first = {}
    for u, v, top, mid in state[1]:
        first.setdefault(mid, (u, v))
    rank = {mid: i for i, (mid, _) in enumerate(sorted(first.items(), key=lambda kv: kv[1]))}
    return state[0], tuple(sorted((u, v, top, rank[mid]) for u, v, top, mid in state[1]))


def proposed_state_c2(state, e0, e1):
    """The state a 2-clique corner swap of the drawn edges e0 = (u0, u1), e1 = (v0, v1) proposes (documented
    semantics: new edges (u0, v1) and (v0, u1) replace the drawn ones, each keeping one of the two motif ids)."""
    (u0, u1), (v0, v1) = e0, e1
    info = {(u, v): (top, mid) for u, v, top, mid in state[1]}
    if e0 not in info or e1 not in info:
        return None
    edges = [e for e in state[1] if (e[0], e[1]) not in (e0, e1)]
    a = tuple(sorted((u0, v1)))
    b = tuple(sorted((v0, u1)))
    # the known id-crossing defect is irrelevant for single-edge motifs: the canonical successor used by the state
    # graph gives (u0, v1) the id of e1 and (v0, u1) the id of e0
    edges.append((a[0], a[1], info[e1][0], info[e1][1]))
    edges.append((b[0], b[1], info[e0][0], info[e0][1]))
    return norm_ids((state[0], tuple(sorted(edges))))


def one_iteration(state, names, target, search_limit, multi=False):
    """Explore exactly one proposal iteration of rewire() from `state`.

    Returns (proposals, hook_fired): proposals = list of (S', q, t, p_acc) with q = exact probability of proposing
    S' (reaching the uniform comparison), t = the threshold the code compared the uniform against and p_acc the
    exact probability of proposing AND accepting."""
    import gcmpy.tools.markov_chain_monte_carlo_rewiring as mod
    registry = mcmc.Registry()
    fired = [0]
    outer = [0]
    seqs = []

    last_inner = [None]
    retry = [False]

    def hook(kind, *args):
        fired[0] += 1
        if kind == "outer":
            outer[0] += 1
            last_inner[0] = None
            if outer[0] >= 2:
                engine.cut_now("end of one proposal iteration")
        elif multi:
            # a second pass through the inner loop head with an unchanged search count is the free retry taken when
            # the drawn partner has another topology: cut there; the surviving leaves are re-weighted below
            sc = args[-1]
            if last_inner[0] is not None and sc == last_inner[0]:
                retry[0] = True
                engine.cut_now("free retry")
            last_inner[0] = sc

    def observer(kind, seq):
        if kind == "choice":
            seqs.append(tuple(seq))

    acc = {}     # prefix -> (S', leaf prob, threshold)
    rej = {}     # prefix -> [leaf prob, threshold, proposed state computed by the harness]

    n_edges = len(state[1])
    top_count = {}
    for u_, v_, top_, mid_ in state[1]:
        top_count[top_] = top_count.get(top_, 0) + 1
    top_of = {(u_, v_): top_ for u_, v_, top_, mid_ in state[1]}
    total_corrected = [Fraction(0)]

    def body():
        outer[0] = 0
        last_inner[0] = None
        retry[0] = False
        del seqs[:]
        registry.copies.clear()
        return mcmc.run_rewire(state, names, target, 0, search_limit, registry)[1]

    def corrected(leaf):
        """Probability of the leaf under the real process, in which a partner draw is repeated until its topology
        matches: every partner draw of a surviving leaf is uniform over the edges of e0's topology."""
        if not multi:
            return leaf.prob
        pts = leaf.run.points
        draws = [pt.taken for pt in pts if pt.label == "choice"]
        if not draws or not seqs:
            return leaf.prob
        e0 = tuple(seqs[0][draws[0]])
        k = top_count.get(top_of.get(e0), n_edges)
        return leaf.prob * Fraction(n_edges, k) ** (len(draws) - 1)

    def on_leaf(leaf):
        pts = leaf.run.points
        upos = [i for i, pt in enumerate(pts) if pt.label.startswith("U<")]
        if leaf.exception is not None:
            raise engine.InfraError(f"rewire raised {leaf.exception!r} during the DTMC exploration")
        if multi and retry[0]:
            return   # free-retry branch: its mass is redistributed by the re-weighting
        lp = corrected(leaf)
        total_corrected[0] += lp
        if not upos:
            if not leaf.cut:
                raise engine.InfraError("accepted swap without a uniform comparison")
            return
        i = upos[0]
        prefix = tuple(pt.taken for pt in pts[:i])
        thr = leaf.run.uniforms[0].thresholds[0] if leaf.run.uniforms and leaf.run.uniforms[0].thresholds else None
        # the drawn edges: e0 = first draw of the iteration, e1 = last draw before the comparison
        draws = [(j, pt.taken) for j, pt in enumerate(pts[:i]) if pt.label == "choice"]
        guess = None
        if len(draws) >= 2 and len(seqs) >= len(draws):
            e0 = seqs[0][draws[0][1]]
            e1 = seqs[len(draws) - 1][draws[-1][1]]
            guess = proposed_state_c2(state, tuple(e0), tuple(e1))
        if leaf.cut:
            cur = rej.setdefault(prefix, [0, thr, guess])
            cur[0] += lp
        else:
            post = mcmc.coarse(leaf.outcome)
            if multi:
                # known open finding: ids of the two swapped corners are crossed; continue from the repaired state
                shapes0 = mcmc.motif_shapes(state)
                if mcmc.check_state_invariants(state, shapes0, post, names, target, pre=state):
                    rep = mcmc.uncross(state, post)
                    if rep is not None and not mcmc.check_state_invariants(state, shapes0, rep, names, target,
                                                                            pre=state):
                        post = rep
                guess = None
            acc[prefix] = (norm_ids(post), lp, thr, guess)

    old = getattr(mod, "_VERIF_HOOK", "absent")
    if old == "absent":
        return None, False
    mod._VERIF_HOOK = hook
    try:
        st = engine.explore(body, on_leaf, max_points=200, track_prob=True, recheck_every=0, max_leaves=2_000_000,
                            observer=observer)
    finally:
        mod._VERIF_HOOK = old
    if fired[0] == 0:
        return None, False
    LAST_LEAVES[0] = st.leaves
    if st.mass + st.cut_mass != 1:
        raise engine.InfraError(f"one-iteration exploration lost probability mass: {st.mass + st.cut_mass}")
    if multi and total_corrected[0] != 1:
        raise engine.InfraError(f"re-weighted leaf probabilities sum to {total_corrected[0]}, not 1")
    proposals = []
    for prefix, (post, p, thr, guess) in acc.items():
        if guess is not None and guess != post:
            MODEL_MISMATCH[0] += 1
        q = p + (rej[prefix][0] if prefix in rej else 0)
        proposals.append((post, q, thr, p))
    for prefix, (p, thr, guess) in rej.items():
        if prefix in acc or guess is None:
            continue
        # proposed but rejected with certainty: the real chain never makes this move, a reference chain may
        proposals.append((guess, p, thr, 0))
    return proposals, True


MODEL_MISMATCH = [0]


LAST_LEAVES = [0]


def reference_ratio(pre, post, names, target):
    """Documented Metropolis ratio: product of target weights of created pairings over removed ones."""
    jd = dict(pre[0])
    old = {(u, v): top for u, v, top, mid in pre[1]}
    new = {(u, v): top for u, v, top, mid in post[1]}

    def w(u, v, top):
        i = names.index(top)
        a = tuple(x - (1 if j == i else 0) for j, x in enumerate(jd[u]))
        b = tuple(x - (1 if j == i else 0) for j, x in enumerate(jd[v]))
        return target[top].get(a + b, 0.0) * 1.0
    num = den = 1.0
    for e, top in new.items():
        if e not in old:
            num *= w(e[0], e[1], top)
    for e, top in old.items():
        if e not in new:
            den *= w(e[0], e[1], top)
    return num / den if den else float("inf")


def reference_moves_c2(state, names, target):
    """Harness-side proposal kernel for single-topology 2-clique networks (documented swap semantics, independent of
    the code under test): every ordered pair of distinct edges e0 = (u0, u1), e1 = (v0, v1) (stored sorted, focal
    vertex = first element) proposes the edges (u0, v1), (v0, u1) unless that would create a self-loop or an existing
    edge; swaps that leave the mixing matrix unchanged are not counted as moves.  Returns {post: sum of min(1, r)},
    {post: number of proposals}, {post: sum of min(1, 1/r)}."""
    edges = [(u, v) for u, v, _, _ in state[1]]
    eset = set(edges)
    top = names[0]
    jd = dict(state[0])

    def exc(v):
        return tuple(x - (1 if j == 0 else 0) for j, x in enumerate(jd[v]))

    def w(a, b):
        return target[top].get(exc(a) + exc(b), 0.0)
    acc, cnt, anti = {}, {}, {}
    for e0 in edges:
        for e1 in edges:
            if e0 == e1:
                continue
            (u0, u1), (v0, v1) = e0, e1
            if u0 == v1 or v0 == u1:
                continue
            a, b = tuple(sorted((u0, v1))), tuple(sorted((v0, u1)))
            if a in eset or b in eset or a == b:
                continue
            new_keys = {exc(u0) + exc(v1), exc(v0) + exc(u1)}
            old_keys = {exc(u0) + exc(u1), exc(u1) + exc(u0), exc(v0) + exc(v1), exc(v1) + exc(v0)}
            if new_keys <= old_keys:
                continue  # nothing changes
            post = proposed_state_c2(state, e0, e1)
            den = w(u0, u1) * w(v0, v1)
            num = w(u0, v1) * w(v0, u1)
            r = num / den if den > 0 else float("inf")
            acc[post] = acc.get(post, 0.0) + min(1.0, r)
            cnt[post] = cnt.get(post, 0.0) + 1.0
            anti[post] = anti.get(post, 0.0) + (min(1.0, 1.0 / r) if r > 0 else 1.0)
    return acc, cnt, anti


def run_dtmc(inst, tier, res):
    desc = {k: inst[k] for k in ("name", "tset", "N", "placement", "target_kind", "search_limit")}
    state, names = c11.initial_state(inst["tset"], inst["N"], inst["placement"])
    target = mcmc.make_target(state, names, inst["target_kind"])
    sl = inst["search_limit"]
    multi = inst["kind"] == "dtmc-multi"
    # closure by BFS over the union of the real successors and the reference kernel's successors
    state = norm_ids(state)
    order = [state]
    index = {state: 0}
    rows_real, rows_ref, rows_null, rows_anti = [], [], [], []
    leaves_total = [0]
    diag = []
    i = 0
    while i < len(order):
        s = order[i]
        i += 1
        props, ok = one_iteration(s, names, target, sl, multi=multi)
        if not ok:
            res.count("dtmc_not_decidable_hook_missing")
            res.flags.add("hook-missing")
            res.samples.append({"dtmc": inst["name"], "note": "guarded hook did not fire: the probabilistic part of "
                                "C12 is not decidable on this tree"})
            return
        res.states += 1
        leaves_total[0] += LAST_LEAVES[0]
        if multi:
            racc, rcnt, ranti = {}, {}, {}
            for post, q, thr, pacc in props:
                rr = reference_ratio(s, post, names, target)
                racc[post] = racc.get(post, 0.0) + float(q) * min(1.0, rr)
                rcnt[post] = rcnt.get(post, 0.0) + float(q)
                ranti[post] = ranti.get(post, 0.0) + float(q) * (min(1.0, 1.0 / rr) if rr > 0 else 1.0)
        else:
            racc, rcnt, ranti = reference_moves_c2(s, names, target)
        for post in list(racc) + [p[0] for p in props]:
            if post not in index:
                if len(order) >= 4000:
                    raise engine.InfraError("DTMC closure larger than 4000 states")
                index[post] = len(order)
                order.append(post)
        real = {}
        for post, q, thr, pacc in props:
            real[index[post]] = real.get(index[post], 0.0) + float(pacc)
            if thr is not None and pacc:
                diag.append((float(thr), reference_ratio(s, post, names, target)))
            res.transitions += 1
        rows_real.append(real)
        rows_ref.append({index[p]: v for p, v in racc.items()})
        rows_null.append({index[p]: v for p, v in rcnt.items()})
        rows_anti.append({index[p]: v for p, v in ranti.items()})
    res.executions += leaves_total[0]
    n = len(order)
    dist0 = [mcmc.l1_distance(s, names, target) for s in order]
    def evolve(rows, steps):
        """f_k[a] = expected L1 distance after k accepted swaps when starting from state a (backward recursion)."""
        f = list(dist0)
        out = [f]
        for _ in range(steps):
            g = []
            for a in range(n):
                tot = sum(rows[a].values())
                if tot <= 0:
                    g.append(f[a])  # no swap possible: absorbing
                else:
                    g.append(sum(w * f[b] for b, w in rows[a].items()) / tot)
            f = g
            out.append(f)
        return out
    steps = 21
    real_f = evolve(rows_real, steps)
    ref_f = evolve(rows_ref, steps)
    anti_f = evolve(rows_anti, steps)
    res.count("dtmc_chains")
    res.count("dtmc_states", n)
    res.count("dtmc_proposals_where_harness_swap_model_differs_from_real_successor", MODEL_MISMATCH[0])
    MODEL_MISMATCH[0] = 0
    off = sum(1 for t, r in diag if abs(min(1.0, t) - min(1.0, r)) > 1e-9)
    res.count("diagnostic_thresholds_differing_from_documented_ratio", off)
    null_f = evolve(rows_null, steps)
    admitted = sensitive = admitted_null = sensitive_null = 0
    worst = None
    for a in range(n):
        d0 = dist0[a]
        if d0 <= 1e-9 or not rows_ref[a]:
            continue
        # (i) literal reading: closer than before, wherever the documented chain gets >= 10% closer
        if ref_f[11][a] <= 0.9 * d0 and ref_f[21][a] <= 0.9 * d0:
            admitted += 1
            if anti_f[11][a] >= d0 or anti_f[21][a] >= d0:
                sensitive += 1
            for k in (11, 21):
                if not real_f[k][a] < d0 and worst is None:
                    worst = (a, k, "initially", d0)
        # (ii) closer than a target-blind rewiring (every proposal accepted) gets, wherever the documented chain
        #      beats that null by >= 10% of the initial distance
        if all(ref_f[k][a] <= null_f[k][a] - 0.1 * d0 for k in (11, 21)):
            admitted_null += 1
            if anti_f[11][a] >= null_f[11][a] or anti_f[21][a] >= null_f[21][a]:
                sensitive_null += 1
            for k in (11, 21):
                if not real_f[k][a] < null_f[k][a] and worst is None:
                    worst = (a, k, "under a target-blind rewiring (every proposal accepted)", null_f[k][a])
    res.count("dtmc_initial_states_admitted_vs_null", admitted_null)
    res.count("dtmc_initial_states_admitted_vs_null_where_inverted_acceptance_would_fail", sensitive_null)
    if sensitive_null or sensitive:
        res.flags.add("dtmc-sensitive")
    res.count("dtmc_initial_states_admitted", admitted)
    res.count("dtmc_initial_states_admitted_where_inverted_acceptance_would_fail", sensitive)
    if admitted:
        res.flags.add("dtmc-admitted")
        res.nontrivial.add((inst["name"], inst["target_kind"], sl))
    res.samples.append({"dtmc": inst["name"], "target": inst["target_kind"], "search_limit": sl, "states": n,
                        "initial_states_admitted": admitted, "of_which_sensitive_to_inverted_acceptance": sensitive,
                        "from_the_catalogue_state": {
                            "initial_L1": dist0[0], "expected_L1_after_11_21_swaps_real": [real_f[11][0], real_f[21][0]],
                            "reference": [ref_f[11][0], ref_f[21][0]]}})
    if worst is not None:
        a, k, what, ref_value = worst
        res.violation("C12:does-not-approach-target",
                      f"scenario {inst['name']} target={inst['target_kind']} search_limit={sl}: starting from edges "
                      f"{[e[:2] for e in order[a][1]]} the expected L1 distance to the target after {k} accepted swaps "
                      f"is {real_f[k][a]:.6f}; {what} it is {ref_value:.6f} (a chain with the documented acceptance "
                      f"ratio reaches {ref_f[k][a]:.6f})", desc)


def run_collision(inst, tier, res):
    desc = {k: inst[k] for k in ("name", "tset", "N", "placement")}
    state, names = c11.initial_state(inst["tset"], inst["N"], inst["placement"])
    target = dict(target_variants(state, names, tier, False))[inst["target"]]
    mcmc.EJKS_DICT_ORDER[0] = inst.get("dict_order", "names")
    try:
        r = mcmc.explore_step(state, state, mcmc.motif_shapes(state), names, target,
                              2 if inst.get("dict_order", "names") == "names" else 0, max_leaves=5_000_000,
                              recheck_every=23)
    finally:
        mcmc.EJKS_DICT_ORDER[0] = "names"
    res.executions += r.leaves
    res.revalidated += r.rechecked
    res.states += 1
    res.transitions += len(r.successors)
    res.count("collision_scenario_runs", r.leaves)
    report(res, desc, r.problems, inst["target"])
    if r.successors:
        res.nontrivial.add((inst["name"], inst["target"], inst.get("dict_order")))
        res.flags.add("collision-scenario")
    res.samples.append({"scenario": inst["name"], "target": inst["target"], "matrix_dict_order": inst.get("dict_order"),
                        "runs": r.leaves, "accepted_swap_successors": len(r.successors)})


def run_instance(inst, tier):
    res = Result()
    if inst["kind"] == "collision":
        run_collision(inst, tier, res)
        return res
    if inst["kind"] == "box":
        run_box(inst, tier, res)
    elif inst["kind"] == "scenario":
        run_scenario(inst, tier, res)
    else:
        run_dtmc(inst, tier, res)   # kinds "dtmc" and "dtmc-multi"
    return res


def finalize(agg, tier):
    if agg.violations:
        return []
    out = [f"vacuous exploration: {f} never seen" for f in ("restricted-target", "restriction-removes-a-swap",
                                                              "collision-scenario")
           if f not in agg.flags]
    if "hook-missing" not in agg.flags:
        for f in ("dtmc-admitted", "dtmc-sensitive"):
            if f not in agg.flags:
                out.append(f"vacuous exploration: {f} never seen")
    return out


def replay(v):
    inst = v["instance"]
    if inst.get("target_kind"):
        r = Result()
        run_dtmc(dict(inst, kind="dtmc"), v.get("tier", "quick"), r)
        for x in r.violations:
            print(x["key"], x["message"])
        print(r.samples[-1] if r.samples else "")
        return 1 if r.violations else 0
    state, names = c11.initial_state(inst["tset"], inst["N"], inst["placement"])
    target = None
    for tname, t in target_variants(state, names, "thorough", True):
        if tname == v["target"]:
            target = t
    shapes0 = mcmc.motif_shapes(state)
    registry = mcmc.Registry()
    cur = state
    for choices in v.get("history", []):
        lf = engine.execute_plain(lambda: mcmc.run_rewire(cur, names, target, 0, 25, registry)[1], choices,
                                  max_points=60)
        cur = mcmc.coarse(lf.outcome)
    leaf = engine.execute_plain(lambda: mcmc.run_rewire(cur, names, target, 0, 25, registry)[1], v["choices"],
                                max_points=len(v["choices"]) + 1)
    print("target", v["target"], target)
    print("edges before:", cur[1])
    if leaf.outcome is None:
        print("exception", leaf.exception)
        return 1
    post = mcmc.coarse(leaf.outcome)
    print("edges after :", post[1])
    probs = [p for p in mcmc.check_state_invariants(state, shapes0, post, names, target, pre=cur) if p[0] == "C12"]
    for p in probs:
        print(p)
    return 1 if probs else 0
