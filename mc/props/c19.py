"""C19 - built-in degree distributions are the probability mass functions they name (parameter grid)."""
import math
from fractions import Fraction

from mc.framework import Result

ID = "C19"
LEVEL = "exploration"
BATCH = 1
TECHNIQUE = ("exhaustive evaluation over a finite parameter grid x every degree of the support up to a bound, "
             "against independently evaluated closed forms (no state space to explore: bounded exhaustive input "
             "enumeration only)")
RULE = ("grid: a in {0.001,0.01,0.1,0.5,1,2,5.5,37}, mean in {0.01,0.5,1,2.5,7,30,120,171.5,300,450.25,720,800}, alpha in {2,2.2,2.5,2.9,3,3.7,4,5,8.5}, kappa in "
        "{0.05,0.3,1,2.5,5,25,60,150,1000,10000,30000.5}; every function evaluated ascending, then a second one descending and at scattered k (values must not depend on the order of the calls); two-call histories (the same factory called first with a parameter 0.04 / 0.004 "
        "away, in both orders); every k of the "
        "support up to 200 (quick) / 400 (thorough); values compared with closed forms evaluated independently (exact "
        "factorials, zeta / polylog by direct summation with Euler-Maclaurin tail) within the documented truncation "
        "tolerance; partial sums + analytic tail compared with 1; non-trivial = one (distribution, parameters, k)")
BOUNDS = {"quick": "k <= 200", "thorough": "k <= 400"}
ASSUMPTIONS = ["real parameters admit no exhaustive enumeration: only the stated grid is covered",
               "truncation rule 'terms below 1e-6 dropped' gives a relative normaliser error <= 2*K^(1-alpha)/(alpha-1)"
               "/C with K = 10^(6/alpha)"]
EXHAUSTIVE = False


def zeta(s, N=2000):
    # Euler-Maclaurin
    tot = sum(k ** -s for k in range(1, N))
    tot += N ** (1 - s) / (s - 1) + 0.5 * N ** -s + s * N ** (-s - 1) / 12
    return tot


def polylog(s, z, N=3000000):
    tot = 0.0
    zk = z
    for k in range(1, N):
        term = zk / k ** s
        tot += term
        if term < 1e-18:
            break
        zk *= z
    return tot


A_GRID = (0.001, 0.01, 0.1, 0.5, 1, 2, 5.5, 37)
MEAN_GRID = (0.01, 0.5, 1, 2.5, 7, 30, 120, 171.5, 300, 450.25, 720, 800)
ALPHA_GRID = (2, 2.2, 2.5, 2.9, 3, 3.7, 4, 5, 8.5)
KAPPA_GRID = (0.05, 0.3, 1, 2.5, 5, 25, 60, 150, 1000, 10000, 30000.5)
NEAR = (0.04, 0.004)   # a factory is also called right after / right before the same factory with a nearby parameter


def instances(tier, seed):
    base = []
    for a in A_GRID:
        base.append({"dist": "exponential", "params": [a]})
    for m in MEAN_GRID:
        base.append({"dist": "poisson", "params": [m]})
    for al in ALPHA_GRID:
        base.append({"dist": "power_law", "params": [al]})
        for ka in KAPPA_GRID:
            base.append({"dist": "scale_free_cut_off", "params": [al, ka]})
    for inst in base:
        yield inst
    # histories of two factory calls: the factory is first called (and its function evaluated) with a neighbouring
    # parameter, then with the parameter under test - in both directions
    for inst in base:
        if inst["dist"] == "poisson" and inst["params"][0] > 200:
            continue
        if inst["dist"] == "scale_free_cut_off" and inst["params"][1] not in (1, 25):
            continue
        for i in range(len(inst["params"])):
            for delta in NEAR:
                near = list(inst["params"])
                near[i] = near[i] + delta
                yield {"dist": inst["dist"], "params": list(inst["params"]), "warm": near}
                yield {"dist": inst["dist"], "params": near, "warm": list(inst["params"])}


def run_instance(inst, tier):
    import gcmpy
    res = Result()
    kmax = 200 if tier == "quick" else 400
    d, ps = inst["dist"], inst["params"]
    try:
        if inst.get("warm"):
            g = getattr(gcmpy, d)(*inst["warm"])
            for k in (1, 2, 3, 50):
                g(k)
            res.flags.add("two-call-history")
        f = getattr(gcmpy, d)(*ps)
    except Exception as e:
        res.violation(f"C19:{d}:factory-raises", f"{d}{tuple(ps)} raised {e!r}", inst)
        return res
    if d == "exponential":
        a = ps[0]
        k0, exact, rel = 0, (lambda k: (1 - math.exp(-a)) * math.exp(-a * k)), 1e-12
        tail = lambda K: math.exp(-a * (K + 1))
    elif d == "poisson":
        m = ps[0]
        k0, rel = 0, 1e-12
        exact = lambda k: math.exp(-m + k * math.log(m) - math.lgamma(k + 1)) if m > 200 else \
            float(Fraction(m).limit_denominator(10 ** 6) ** k / math.factorial(k)) * math.exp(-m)
        if m > 200:
            rel = 1e-9   # reference itself evaluated in log space
        tail = lambda K: sum(exact(k) for k in range(K + 1, K + 200)) if m <= 200 else None
    elif d == "power_law":
        al = ps[0]
        C = zeta(al)
        K = 10 ** (6 / al)
        rel = 2 * (K ** (1 - al) / (al - 1)) / C + 1e-9
        k0, exact = 1, (lambda k: k ** -al / C)
        tail = lambda K_: zeta(al) - sum(k ** -al for k in range(1, K_ + 1))
        tail = (lambda t: (lambda K_: t(K_) / C))(tail)
    else:
        al, ka = ps
        z = math.exp(-1.0 / ka)
        C = polylog(al, z)
        # documented rule: the series stops at the first term below 1e-6 (that term is still added); what is dropped
        # is at most that term * z / (1 - z) (terms shrink at least geometrically with ratio z)
        kstar = 1
        while z ** kstar / kstar ** al >= 1e-6:
            kstar += 1
        dropped = (z ** kstar / kstar ** al) * z / (1 - z)
        # the dropped terms are also below k^-alpha, so their sum is at most the integral from kstar - 1/2 (convexity)
        dropped = min(dropped, (kstar - 0.5) ** (1 - al) / (al - 1))
        rel = 2 * dropped / C + 1e-9
        k0, exact = 1, (lambda k: k ** -al * math.exp(-k / ka) / C)
        tail = lambda K_: (C - sum(k ** -al * z ** k for k in range(1, K_ + 1))) / C
    ks = list(range(k0, kmax + 1))
    big = d == "poisson" and ps[0] > 200
    if big:
        mm = int(ps[0])
        ks = list(range(0, 40)) + list(range(mm - 100, mm + 101))
    total = 0.0
    vals = {}
    for k in ks:
        res.executions += 1
        res.states += 1
        res.transitions += 1
        try:
            v = float(f(k))
        except Exception as e:
            res.violation(f"C19:{d}:raises", f"{d}{tuple(ps)}({k}) raised {e!r}", inst, k=k)
            return res
        w = exact(k)
        if v < 0 or not abs(v - w) <= rel * w + 1e-200:   # absolute floor: values in the underflow range are not compared relatively
            res.violation(f"C19:{d}:value", f"{d}{tuple(ps)}({k}) = {v!r}, the named pmf gives {w!r} "
                          f"(allowed relative error {rel:.3g})", inst, k=k)
            return res
        total += v
        vals[k] = v
        res.nontrivial.add((d, tuple(ps), k))
    # order of evaluation: a second function from the same factory call arguments is evaluated from the largest k down
    # and then once more at scattered k; a pmf value cannot depend on which k were asked for before
    try:
        f2 = getattr(gcmpy, d)(*ps)
        order = list(reversed(ks)) + ks[::7] + ks[:3]
        for k in order:
            res.executions += 1
            v2 = float(f2(k))
            v1 = float(f(k))   # the first function again, now after a full ascending pass
            if v2 != vals[k] or v1 != vals[k]:
                res.violation(f"C19:{d}:depends-on-call-order",
                              f"{d}{tuple(ps)}({k}) = {vals[k]!r} in an ascending pass, {v2!r} on a second function "
                              f"evaluated from k={ks[-1]} downwards, {v1!r} when asked again", inst, k=k)
                return res
        res.flags.add("descending-pass")
    except Exception as e:
        res.violation(f"C19:{d}:raises", f"{d}{tuple(ps)} evaluated in descending order raised {e!r}", inst)
        return res
    t = tail(kmax)
    if big:
        t = 1 - total   # only a window around the mean was evaluated; the normalisation sum is not checked here
    if abs(total + t - 1) > rel + 1e-9:
        res.violation(f"C19:{d}:normalisation", f"{d}{tuple(ps)}: sum over k<={kmax} = {total}, analytic tail {t}, "
                      f"together {total + t} != 1 (tolerance {rel:.3g})", inst)
    res.samples.append({"distribution": d, "parameters": ps, "k_range": [k0, kmax], "partial_sum": total,
                        "analytic_tail": t})
    return res


def replay(v):
    r = run_instance(v["instance"], v.get("tier", "quick"))
    for x in r.violations:
        print(x["key"], x["message"])
    return 1 if r.violations else 0
