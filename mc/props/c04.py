"""C04 - edge list <-> network conversion loses nothing."""
import itertools

from mc import engine, gen_common
from mc.framework import Result

ID = "C04"
LEVEL = "model_checking"
BATCH = 4
RULE = ("(a) every edge list object the fast and custom generators return over every stub arrangement of every "
        "instance of the generator box (self-loops, repeated pairs, zero-degree vertices occur there), and (b) every "
        "hand-enumerated edge list over N vertices with up to L rows drawn from all pairs including loops x 2 "
        "topology names x 2 id patterns (4 for lists of <= 2 rows: also digit-string and tuple ids), is converted to a network and back with the real converters and compared "
        "with an independent description; non-trivial = distinct edge list with a zero row, loop or repeated pair")
BOUNDS = {"quick": "(a) generator box of C01 restricted to <= 120 arrangements; (b) N<=3, L<=3",
          "thorough": "(a) generator box (thorough) restricted to <= 150 arrangements; (b) N<=4, L<=4"}
ASSUMPTIONS = ["attributes of collapsed repeated pairs are unspecified by the property and not compared",
               "hand-enumerated lists carry the joint degrees implied by their rows (zero rows for untouched vertices)",
               "object histories: every hand-enumerated list is also written through the public setters into a "
               "LightWeightEdgeList that was filled with and converted from another content before, and its network "
               "is handed through the G setter to a Network object that was converted back before; both must behave "
               "like fresh objects"]
CAP = {"quick": 120, "thorough": 150}
HAND = {"quick": (3, 3), "thorough": (4, 4)}


def instances(tier, seed):
    for inst in gen_common.all_instances(tier):
        n = gen_common.n_arrangements(inst["jds"], len(inst["jds"][0]))
        if n <= CAP[tier]:
            inst["src"] = "gen"
            yield inst
    maxn, maxl = HAND[tier]
    for N in range(1, maxn + 1):
        prs = [(a, b) for a in range(N) for b in range(a, N)]
        for L in range(0, maxl + 1):
            rows = list(itertools.product(prs, repeat=L))
            step = 400
            for i in range(0, len(rows), step):
                yield {"src": "hand", "N": N, "L": L, "rows": rows[i:i + step]}


def check_roundtrip(el_obj, jds, edge_list, topologies, ids):
    """Oracle. Returns (key, msg) or None."""
    from gcmpy.network.edge_list_to_network import EdgeListToNetwork
    from gcmpy.network.network_to_edge_list import NetworkToEdgeList
    from gcmpy.names.network_names import NetworkNames as NN
    N = len(jds)
    try:
        net = EdgeListToNetwork.convert(el_obj)
    except Exception as e:
        return ("C04:convert-raises", f"EdgeListToNetwork.convert raised {e!r}")
    G = net.G
    if sorted(G.nodes()) != list(range(N)):
        return ("C04:vertices-lost", f"network vertices {sorted(G.nodes())} != 0..{N - 1} (jds {jds})")
    for v in range(N):
        jd = G.nodes[v].get(NN.JOINT_DEGREE)
        if jd is None or tuple(jd) != tuple(jds[v]):
            return ("C04:vertex-annotation", f"vertex {v} annotated {jd}, joint degree is {jds[v]}")
    occ = {}
    for e, t, m in zip(edge_list, topologies, ids):
        occ.setdefault(frozenset(e), []).append((t, m))
    got = {frozenset(e) for e in G.edges()}
    if got != set(occ):
        return ("C04:adjacency", f"network edges {sorted(map(sorted, got))} != pairs in the list "
                f"{sorted(map(sorted, occ))}")
    for e in G.edges():
        rows = occ[frozenset(e)]
        d = G.edges[e]
        if len(rows) == 1 and (d.get(NN.TOPOLOGY), d.get(NN.MOTIF_IDS)) != rows[0]:
            return ("C04:edge-attributes", f"edge {e} carries {(d.get(NN.TOPOLOGY), d.get(NN.MOTIF_IDS))}, "
                    f"its only row says {rows[0]}")
    net_desc = {frozenset(e): (G.edges[e].get(NN.TOPOLOGY), G.edges[e].get(NN.MOTIF_IDS)) for e in G.edges()}
    try:
        back = NetworkToEdgeList.convert(net)
    except Exception as e:
        return ("C04:reverse-raises", f"NetworkToEdgeList.convert raised {e!r}")
    if [tuple(r) for r in back.joint_degrees] != [tuple(r) for r in jds]:
        return ("C04:reverse-jds", f"reverse conversion returns joint degrees {back.joint_degrees}, not {jds}")
    if not (len(back.edge_list) == len(back.topologies) == len(back.motif_id)):
        return ("C04:reverse-columns", "reverse conversion returns columns of different lengths")
    back_desc = {}
    for e, t, m in zip(back.edge_list, back.topologies, back.motif_id):
        if frozenset(e) in back_desc:
            return ("C04:reverse-duplicate", f"reverse conversion lists pair {e} twice")
        back_desc[frozenset(e)] = (t, m)
    if back_desc != net_desc:
        return ("C04:reverse-edges", f"reverse conversion gives {back_desc}, network has {net_desc}")
    try:
        net2 = EdgeListToNetwork.convert(back)
    except Exception as e:
        return ("C04:second-convert-raises", f"{e!r}")
    G2 = net2.G
    if (dict(G2.nodes(data=True)) != dict(G.nodes(data=True))
            or {frozenset(e): d for *e, d in G2.edges(data=True)} != {frozenset(e): d for *e, d in G.edges(data=True)}):
        return ("C04:roundtrip-not-identity", "network rebuilt from the reverse conversion differs")
    return None


def fill(el, jds, edge_list, topologies, ids):
    el.joint_degrees = list(jds)
    el.edge_list = [tuple(e) for e in edge_list]
    el.topologies = list(topologies)
    el.motif_id = list(ids)


def reused_containers(hist, N, jds, edge_list, topologies, ids, res):
    """Object histories: the edge list under test is written through the public setters into a LightWeightEdgeList
    that has already been filled with, and converted from, another content (cycling: the previous content of the
    enumeration, a larger one, a one-vertex one); likewise a Network object that has already been converted back
    receives the graph under test through its G setter. Both must behave like fresh objects."""
    from gcmpy.network.edge_list import LightWeightEdgeList
    from gcmpy.network.edge_list_to_network import EdgeListToNetwork
    from gcmpy.network.network_to_edge_list import NetworkToEdgeList
    i = hist["i"]
    hist["i"] += 1
    bigger = ([(1, 1)] * 2 + [(0, 0)] * (N + 1), [(0, 1), (0, 1)], ["A", "B"], [0, 1])
    single = ([(0, 0)], [], [], [])
    prior = (hist["prev"] if hist["prev"] is not None else bigger, bigger, single)[i % 3]
    hist["prev"] = (list(jds), list(edge_list), list(topologies), list(ids))
    hist["prior"] = prior
    if prior[:2] == (list(jds), list(edge_list)):
        return None
    res.count("reused_container_histories", 1)
    res.transitions += 2
    return reused_with_prior(prior, jds, edge_list, topologies, ids)


def reused_with_prior(prior, jds, edge_list, topologies, ids):
    from gcmpy.network.edge_list import LightWeightEdgeList
    from gcmpy.network.edge_list_to_network import EdgeListToNetwork
    from gcmpy.network.network_to_edge_list import NetworkToEdgeList
    el = LightWeightEdgeList()
    fill(el, *prior)
    try:
        prior_net = EdgeListToNetwork.convert(el)
        NetworkToEdgeList.convert(prior_net)
    except Exception:
        return None   # the prior content on its own is judged where it is the content under test
    fill(el, jds, edge_list, topologies, ids)
    bad = check_roundtrip(el, jds, edge_list, topologies, ids)
    if bad:
        return ("C04:reused-edge-list-object:" + bad[0].split(":", 1)[1],
                f"a LightWeightEdgeList first filled with jds={prior[0]} edges={prior[1]}, converted, then refilled "
                f"through its setters: {bad[1]}")
    # a Network object that has been converted back already, then given the graph under test
    fresh = LightWeightEdgeList()
    fill(fresh, jds, edge_list, topologies, ids)
    try:
        want = NetworkToEdgeList.convert(EdgeListToNetwork.convert(fresh))
        prior_net.G = EdgeListToNetwork.convert(fresh).G
        got = NetworkToEdgeList.convert(prior_net)
    except Exception as e:
        return ("C04:reused-network-object:raises", f"a Network re-pointed through its G setter: {e!r}")
    def desc(x):
        return ([tuple(r) for r in x.joint_degrees],
                sorted((tuple(sorted(e)), repr(t), repr(m)) for e, t, m in zip(x.edge_list, x.topologies, x.motif_id)))
    if desc(got) != desc(want):
        return ("C04:reused-network-object:differs",
                f"a Network that was converted back once (jds={prior[0]} edges={prior[1]}) and then re-pointed through "
                f"its G setter converts to {desc(got)}, a fresh Network to {desc(want)}")
    return None


def features(jds, edge_list):
    f = set()
    if any(all(x == 0 for x in r) for r in jds):
        f.add("zero-row")
    if any(e[0] == e[1] for e in edge_list):
        f.add("self-loop")
    ps = [frozenset(e) for e in edge_list]
    if len(ps) != len(set(ps)):
        f.add("repeated-pair")
    return f


def run_instance(inst, tier):
    res = Result()
    if inst["src"] == "gen":
        path = "fast-direct" if inst["kind"] == "fast" else "custom-direct"
        seen = set()
        first = []

        def on_obs(obs, meta, leaf):
            if leaf.exception is not None or obs is None or "raw" not in obs:
                return  # generator failures are C01/C02's business
            el = obs["raw"]
            key = (repr(el.edge_list), repr(el.topologies), repr(el.motif_id))
            if key in seen:
                return
            seen.add(key)
            if not (len(el.edge_list) == len(el.topologies) == len(el.motif_id)):
                return
            if any(not (isinstance(e, tuple) and len(e) == 2 and isinstance(e[0], int)) for e in el.edge_list):
                return  # the converter's contract is pairs as tuples (the library's motif builders return tuples)
            f = features(meta["jds"], el.edge_list)
            res.flags.update("gen:" + x for x in f)
            if f:
                res.nontrivial.add(key)
            res.states += 1
            res.transitions += 3
            bad = check_roundtrip(el, meta["jds"], list(el.edge_list), list(el.topologies), list(el.motif_id))
            if bad and not first:
                first.append((bad, leaf.choices, list(el.edge_list)))
        st, meta = gen_common.explore_instance(inst, tier, path, on_obs)
        res.executions += st.leaves
        res.revalidated += st.rechecked
        if first:
            (key, msg), choices, el = first[0]
            small = {k: inst[k] for k in ("kind", "cfg", "cfg_name", "jds")}
            res.violation(key, f"{path} cfg={inst['cfg_name']} jds={inst['jds']} choices={choices} "
                          f"edge_list={el}: {msg}", small, path=path, choices=choices, src="gen")
        return res
    from gcmpy.network.edge_list import LightWeightEdgeList
    N, L = inst["N"], inst["L"]
    hist = {"i": 0, "prev": None}
    for rows in inst["rows"]:
        name_sets = ["AB"] + ([["", "B"]] if L <= 2 else [])   # "" is a legitimate (falsy) topology name
        for tops in [t for ns in name_sets for t in itertools.product(ns, repeat=L)]:
            # a motif id is an opaque label: besides ints, digit strings and tuples (short lists only)
            for idp in (0, 1) + ((2, 3) if L <= 2 else ()):
                ids = [(i, 10 + i // 2, str(7 + i), ("m", i))[idp] for i in range(L)]
                jds = [[0, 0] for _ in range(N)]
                for (a, b), t in zip(rows, tops):
                    k = 1 if t == "B" else 0
                    jds[a][k] += 1
                    jds[b][k] += 1
                jds = [tuple(r) for r in jds]
                el = LightWeightEdgeList()
                el.edge_list = [tuple(e) for e in rows]
                el.topologies = list(tops)
                el.motif_id = list(ids)
                el.joint_degrees = list(jds)
                res.states += 1
                res.transitions += 3
                res.executions += 1
                f = features(jds, rows)
                res.flags.update("hand:" + x for x in f)
                if f:
                    res.nontrivial.add((N, rows, tops, idp))
                bad = check_roundtrip(el, jds, list(rows), list(tops), ids)
                if not bad:
                    bad = reused_containers(hist, N, jds, list(rows), list(tops), ids, res)
                if bad:
                    res.violation(bad[0], f"N={N} edge_list={list(rows)} topologies={list(tops)} ids={ids} "
                                  f"jds={jds}: {bad[1]}", {"N": N, "rows": [list(rows)]}, src="hand", jds=jds,
                                  rows=list(rows), tops=list(tops), ids=ids,
                                  prior=[list(x) for x in hist["prior"]] if "reused" in bad[0] else None)
                    if len(res.violations) > 20:
                        return res
    if L == 3 and not res.samples:
        res.samples.append({"N": N, "edge_list": list(inst["rows"][-1]), "topologies": "all of {A,B}^L",
                            "id_patterns": ["row index", "10 + row//2", "digit strings (L<=2)", "tuples (L<=2)"]})
    return res


def finalize(agg, tier):
    if agg.violations:
        return []
    need = ["gen:zero-row", "gen:self-loop", "gen:repeated-pair", "hand:zero-row", "hand:self-loop",
            "hand:repeated-pair"]
    return [f"vacuous exploration: never saw {f}" for f in need if f not in agg.flags]


def replay(v):
    from gcmpy.network.edge_list import LightWeightEdgeList
    if v.get("src") == "hand":
        el = LightWeightEdgeList()
        el.edge_list = [tuple(e) for e in v["rows"]]
        el.topologies = list(v["tops"])
        el.motif_id = list(v["ids"])
        jds = [tuple(r) for r in v["jds"]]
        el.joint_degrees = list(jds)
        bad = check_roundtrip(el, jds, el.edge_list, el.topologies, el.motif_id)
        if not bad and v.get("prior"):
            pr = v["prior"]
            prior = ([tuple(r) for r in pr[0]], [tuple(e) for e in pr[1]], pr[2], pr[3])
            print("prior content of the reused objects:", prior)
            bad = reused_with_prior(prior, jds, [tuple(e) for e in v["rows"]], list(v["tops"]), list(v["ids"]))
    else:
        body, meta = gen_common.make_body(v["instance"], v.get("tier", "quick"), v["path"])
        leaf = engine.execute_plain(body, v["choices"], max_points=400)
        el = leaf.outcome["raw"]
        print("edge list:", el.edge_list, el.topologies, el.motif_id, el.joint_degrees)
        bad = check_roundtrip(el, meta["jds"], list(el.edge_list), list(el.topologies), list(el.motif_id))
    print("oracle:", bad)
    return 1 if bad else 0
