"""C15 - automated motif equation = exact bond-percolation expectation (polynomial identity) + cache histories."""
import copy
import itertools
from collections import deque
from fractions import Fraction

from mc import enumr, perc
from mc.framework import Result
from mc.poly import Poly, diff_summary

ID = "C15"
LEVEL = "model_checking"
BATCH = 1
RULE = ("(a) for every connected graph in the box, 3 vertex labelings and every focal vertex, the real "
        "automated_equation is evaluated on symbolic phi and one symbol per vertex and compared coefficient by "
        "coefficient with the polynomial obtained by enumerating all 2^|E| occupation states; (b) explicit-state "
        "BFS over call histories on ONE shared evaluator (3 distinctly named motifs on the same vertex set x 2 focal "
        "vertices x 2 phi x 3 u-assignments = 36 letters; state = contents of both caches), every answer compared "
        "with a fresh evaluator and with the oracle; non-trivial = graph with >= 3 edges / cache state with >= 2 keys")
BOUNDS = {"quick": "all 30 connected atlas graphs on 2..5 vertices and the 6- and 7-vertex ones with <= 7 edges, cycles C6..C8, two 8-vertex motifs (one with colour-refinement-equivalent induced subgraphs, the cube), small motifs with negative vertex ids; one evaluator shared by all motifs (2 orders); histories: BFS to fixpoint of "
                   "the cache-state space (cap depth 8; 64 states reached at depth 6)",
          "thorough": "+ all connected 6-vertex atlas graphs with <= 11 edges, 7-vertex ones with <= 9 edges, K6, cycles to C10"}
ASSUMPTIONS = ["motifs on a shared evaluator are distinctly named (the property's premise)",
               "the polynomial identity covers all real phi and u; vertex ids are ints"]


def graphs(tier, seed):
    out = []
    for n, edges in enumr.atlas_connected(2, 5):
        out.append((n, edges))
    for n in (6, 7, 8):
        out.append((n, [(i, (i + 1) % n) if i < (i + 1) % n else ((i + 1) % n, i) for i in range(n)]))
    if tier == "quick":
        out += enumr.atlas_connected(6, 6, max_edges=7)
        out += enumr.atlas_connected(7, 7, max_edges=7)    # trees and unicyclic graphs on 7 vertices
    if tier == "thorough":
        out += enumr.atlas_connected(6, 6, max_edges=11)
        out += enumr.atlas_connected(7, 7, max_edges=9)
        out.append((6, enumr.pairs(6)))
        for n in (9, 10):
            out.append((n, [tuple(sorted((i, (i + 1) % n))) for i in range(n)]))
    return out


# hand catalogue of 8-vertex motifs: a motif containing two non-isomorphic induced subgraphs that colour refinement
# cannot tell apart (domino and bridged triangles), the cube, two 4-cliques sharing a vertex with a tail
MOTIFS_8 = [
    ("wl-twins", [(0, 1), (0, 3), (3, 4), (1, 2), (2, 3), (4, 5), (0, 5), (0, 6), (1, 6), (3, 7), (4, 7)]),
    ("cube", [(0, 1), (1, 2), (2, 3), (0, 3), (4, 5), (5, 6), (6, 7), (4, 7), (0, 4), (1, 5), (2, 6), (3, 7)]),
    ("two-K4+tail", [(0, 1), (0, 2), (0, 3), (1, 2), (1, 3), (2, 3), (3, 4), (3, 5), (3, 6), (4, 5), (4, 6), (5, 6),
                     (6, 7)]),
]
NEGATIVE_LABELS = [0, -1, 3, -2, 5, -7, 2, -4]   # hash(-1) == hash(-2) in CPython


def instances(tier, seed):
    for name, edges in (MOTIFS_8[:2] if tier == "quick" else MOTIFS_8):
        yield {"kind": "identity", "n": 8, "edges": edges, "labels": list(range(8))}
    # small motifs under a labelling with negative vertex ids
    for n, edges in enumr.atlas_connected(3, 5):
        if len(edges) <= 6:
            yield {"kind": "identity", "n": n, "edges": edges, "labels": NEGATIVE_LABELS[:n]}
            # labels 1000, 1007, ...: each occurrence in the edge list is a separate int object
            yield {"kind": "identity", "n": n, "edges": edges, "labels": enumr.relabelings(n, seed, kinds=("large",))[0]}
    for n, edges in graphs(tier, seed):
        kinds = ("identity", "reversed", "sparse") if (len(edges) <= 11 and n <= 6) else ("identity", "sparse")
        if n == 7 and tier == "quick":
            kinds = ("sparse",)
        for lab in enumr.relabelings(n, seed, kinds=kinds):
            yield {"kind": "identity", "n": n, "edges": edges, "labels": lab}
    yield {"kind": "history"}
    for order in ("forward", "reverse"):
        yield {"kind": "shared", "order": order}


NUMERIC_POINTS = [
    (Fraction(1, 3), [Fraction(1, 2), Fraction(1, 3), Fraction(2, 5), Fraction(7, 8), Fraction(1, 5), Fraction(9, 10),
                      Fraction(3, 7), Fraction(5, 6), Fraction(1, 9), Fraction(4, 5)]),
    (Fraction(3, 4), [Fraction(9, 10), Fraction(1, 7), Fraction(1, 2), Fraction(2, 3), Fraction(3, 8), Fraction(1, 4),
                      Fraction(5, 7), Fraction(1, 6), Fraction(7, 9), Fraction(2, 7)]),
    (Fraction(1, 10), [Fraction(2, 3), Fraction(3, 5), Fraction(1, 8), Fraction(1, 3), Fraction(6, 7), Fraction(1, 2),
                       Fraction(2, 9), Fraction(4, 7), Fraction(3, 4), Fraction(1, 5)]),
]


def numeric_check(ae_factory, name, verts, edges, root, want_poly):
    """Fallback when the code does not run on symbolic arguments: floats at heterogeneous rational points."""
    for phi, us in NUMERIC_POINTS:
        u = {v: us[i % len(us)] for i, v in enumerate(verts)}
        env = {"p": phi}
        env.update({f"u{v}": u[v] for v in verts})
        want = float(want_poly.subs(env))
        got = evaluate(ae_factory(), name, verts, edges, root, float(phi), {v: float(x) for v, x in u.items()})
        if abs(float(got) - want) > 1e-11:
            return f"at phi={phi}, u={({v: str(x) for v, x in u.items()})}: {got} vs exact {want}"
    return None


def evaluate(ae, name, verts, edges, root, p, u):
    import networkx as nx
    G = nx.Graph(name=name)
    G.add_nodes_from(verts)
    G.add_edges_from(edges)
    nx.set_node_attributes(G, u, "u")
    return ae.automated_equation(G, p, root)


def run_identity(res, inst):
    from gcmpy.message_passing.equations.automated_equation import AutomatedEquation
    n, lab = inst["n"], inst["labels"]
    verts = [lab[v] for v in range(n)]
    edges = enumr.fresh_edges([(lab[a], lab[b]) for a, b in inst["edges"]])
    p = Poly.var("p")
    u = {v: Poly.var(f"u{v}") for v in verts}
    for root in verts:
        res.executions += 1
        res.states += 1
        res.transitions += 1
        want = perc.expectation_poly(verts, edges, root, p, u)
        try:
            got = evaluate(AutomatedEquation(), f"m{root}", verts, edges, root, p, u)
        except Exception as e:
            # the code may legitimately use an operation the symbolic arguments do not support:
            # decide numerically at heterogeneous rational points instead (weaker, still sound)
            res.count("evaluations_decided_numerically_because_symbolic_arguments_failed")
            try:
                bad = numeric_check(AutomatedEquation, f"m{root}", verts, edges, root, want)
            except Exception as e2:
                res.violation("C15:raises", f"vertices={verts} edges={edges} focal={root}: {e2!r} (symbolic: {e!r})",
                              {k: inst[k] for k in ("n", "edges", "labels")}, root=root)
                continue
            if bad:
                res.violation("C15:value-differs", f"vertices={verts} edges={edges} focal={root}: {bad}",
                              {k: inst[k] for k in ("n", "edges", "labels")}, root=root)
            continue
        if not isinstance(got, Poly) or got != want:
            res.violation("C15:polynomial-differs",
                          f"vertices={verts} edges={edges} focal={root}: automated_equation differs from the exact "
                          f"expectation: {diff_summary(got, want) if isinstance(got, Poly) else repr(got)}",
                          {k: inst[k] for k in ("n", "edges", "labels")}, root=root)
    # boundary values as plain numbers: every assignment of u in {0, 1/2, 1} (ints, floats and Fractions mixed) to the
    # vertices and phi in {0, 1/2, 1}, for the motifs on <= 4 vertices
    if n <= 4 and not res.violations:
        forms = {0: (0, 0.0, Fraction(0)), 1: (1, 1.0, Fraction(1)), 2: (0.5, Fraction(1, 2), 0.5)}
        for root in verts[:2]:
            want = perc.expectation_poly(verts, edges, root, p, u)
            for ci, combo in enumerate(itertools.product((0, 1, 2), repeat=n)):
                for pi, phi in enumerate((0.5, 0, 1)):
                    if pi and ci % 3:
                        continue
                    uu = {v: forms[c][(ci + i) % 3] for i, (v, c) in enumerate(zip(verts, combo))}
                    env = {"p": Fraction(phi)}
                    env.update({f"u{v}": Fraction(uu[v]) for v in verts})
                    w = float(want.subs(env))
                    res.executions += 1
                    try:
                        got = float(evaluate(AutomatedEquation(), f"b{root}", verts, edges, root, phi, uu))
                    except Exception as e:
                        got = e
                    if isinstance(got, Exception) or abs(got - w) > 1e-12:
                        res.violation("C15:boundary-values", f"vertices={verts} edges={edges} focal={root} phi={phi!r} "
                                      f"u={uu!r}: automated_equation gives {got!r}, exact value {w}",
                                      {k: inst[k] for k in ("n", "edges", "labels")}, root=root)
                        break
                else:
                    continue
                break
        res.flags.add("boundary-values")
    if len(edges) >= 3:
        res.nontrivial.add((tuple(verts), tuple(edges)))
    if not res.samples and len(edges) == 5:
        res.samples.append({"vertices": verts, "edges": edges, "focal": "every vertex",
                            "arguments": "phi = symbol p, u_j = one symbol per vertex"})


MOTIFS = {
    "tail": [(0, 1), (1, 2), (0, 2), (2, 3)],
    "cyc": [(0, 1), (1, 2), (2, 3), (0, 3)],
    "dia": [(0, 1), (1, 2), (2, 3), (0, 3), (0, 2)],
}
VERTS = [0, 1, 2, 3]
PHIS = [Fraction(1, 3), Fraction(3, 4)]
US = [{0: Fraction(1, 2), 1: Fraction(1, 3), 2: Fraction(2, 5), 3: Fraction(7, 8)},
      {0: Fraction(1, 5), 1: Fraction(9, 10), 2: Fraction(1, 2), 3: Fraction(1, 7)},
      # the first assignment with the values of vertices 1 and 3 exchanged: both focal vertices (0, 2) keep their value,
      # so a memo keyed by the multiset of the other vertices' u collides (1 <-> 3 is no automorphism of 'tail')
      {0: Fraction(1, 2), 1: Fraction(7, 8), 2: Fraction(2, 5), 3: Fraction(1, 3)}]
ALPHABET = [(m, f, pi, ui) for m in MOTIFS for f in (0, 2) for pi in range(2) for ui in range(3)]
SYMBOLIC_OK = [True]


def cache_state(ae):
    return repr(sorted((k, repr(sorted(v.items(), key=repr)) if isinstance(v, dict) else repr(v))
                       for k, v in vars(ae).items()))


def apply_letter(ae, letter):
    m, f, pi, ui = letter
    if SYMBOLIC_OK[0]:
        return evaluate(ae, NAMES[0][m], VERTS, MOTIFS[m], f, Poly.const(PHIS[pi]),
                        {v: Poly.const(x) for v, x in US[ui].items()})
    return evaluate(ae, NAMES[0][m], VERTS, MOTIFS[m], f, float(PHIS[pi]), {v: float(x) for v, x in US[ui].items()})


def same_value(a, b):
    if isinstance(a, Poly) or isinstance(b, Poly):
        return Poly.lift(a) == Poly.lift(b)
    return abs(float(a) - float(b)) <= 1e-12


NAME_SETS = [
    {"tail": "tail", "cyc": "cyc", "dia": "dia"},
    # distinct names that collide under careless key construction: different case, a vertex-like prefix + delimiter
    {"tail": "M", "cyc": "m", "dia": "3-m"},
]
NAMES = [NAME_SETS[0]]


def run_history(res):
    for names in NAME_SETS:
        NAMES[0] = names
        try:
            _run_history(res)
        finally:
            NAMES[0] = NAME_SETS[0]
        if res.violations:
            return


def _run_history(res):
    from gcmpy.message_passing.equations.automated_equation import AutomatedEquation
    p = Poly.var("p")
    usym = {v: Poly.var(f"u{v}") for v in VERTS}
    truth = {}
    for letter in ALPHABET:
        m, f, pi, ui = letter
        pol = perc.expectation_poly(VERTS, MOTIFS[m], f, p, usym)
        env = {"p": PHIS[pi]}
        env.update({f"u{v}": x for v, x in US[ui].items()})
        truth[letter] = pol.subs(env)
    try:
        apply_letter(AutomatedEquation(), ALPHABET[0])
    except Exception:
        SYMBOLIC_OK[0] = False  # the code does not run on exact constants: use floats (tolerance 1e-12)
        res.count("history_decided_numerically_because_exact_arguments_failed")
    fresh = {}
    for letter in ALPHABET:
        try:
            val = apply_letter(AutomatedEquation(), letter)
            fresh[letter] = val
        except Exception as e:
            res.violation("C15:history-raises", f"fresh evaluator on {letter}: {e!r}", {"kind": "history"},
                          history=[list(letter)])
            return
    ae0 = AutomatedEquation()
    seen = {cache_state(ae0): []}
    frontier = deque([(ae0, [])])
    maxdepth = 8
    while frontier:
        ae, hist = frontier.popleft()
        res.states += 1
        for letter in ALPHABET:
            nxt = copy.deepcopy(ae)
            res.executions += 1
            res.transitions += 1
            h2 = hist + [list(letter)]
            try:
                val = apply_letter(nxt, letter)
            except Exception as e:
                res.violation("C15:history-raises", f"history {h2}: {e!r}", {"kind": "history"}, history=h2)
                return
            if not same_value(val, fresh[letter]) or not same_value(val, truth[letter] if SYMBOLIC_OK[0]
                                                                     else float(truth[letter])):
                res.violation("C15:history-dependent",
                              f"motif names {NAMES[0]}: after history {hist} the evaluation {letter} (motif, focal, "
                              f"phi#, u#) returns {val}; "
                              f"a fresh evaluator returns {fresh[letter]}, the exact expectation is {truth[letter]}",
                              {"kind": "history"}, history=h2)
                return
            k = cache_state(nxt)
            if k not in seen:
                seen[k] = h2
                if len(seen) > 400:
                    # structural caches of 6 (motif, focal) pairs have 64 states; far more means the caches hold
                    # something else - stop widening (every state found so far was still checked)
                    res.count("history_state_cap_hit")
                    continue
                if len(h2) < maxdepth:
                    frontier.append((nxt, h2))
                else:
                    res.count("history_states_at_depth_cap")
    # trace validation: shortest history of every state replayed on a fresh evaluator
    for k, hist in seen.items():
        ae = AutomatedEquation()
        for letter in hist:
            apply_letter(ae, tuple(letter))
        res.revalidated += 1
        if cache_state(ae) != k:
            res.infra.append(f"replay of history {hist} reaches a different cache state")
    res.count("distinct_cache_states", len(seen))
    for k in seen:
        res.nontrivial.add(k)
    if len(seen) >= 2:
        res.flags.add("cache-states>=2")
    res.samples.append({"history_alphabet": "motif in {tail,cyc,dia} on vertices 0..3, focal in {0,2}, phi in "
                        "{1/3,3/4}, two u assignments", "distinct_cache_states": len(seen),
                        "deepest_shortest_history": max(seen.values(), key=len)})


def run_shared(res, inst, tier):
    """One evaluator shared by ALL motifs of the box (distinct names), swept in a fixed order: every answer must
    still be the exact expectation (catches cache keys that collide across different motif structures)."""
    from gcmpy.message_passing.equations.automated_equation import AutomatedEquation
    ae = AutomatedEquation()
    items = []
    for gi, (n, edges) in enumerate(graphs(tier, 0)):
        if len(edges) > 9:
            continue
        for root in range(n):
            items.append((gi, n, edges, root))
    if inst["order"] == "reverse":
        items.reverse()
    numeric = False
    for gi, n, edges, root in items:
        verts = list(range(n))
        p = Poly.var("p")
        u = {v: Poly.var(f"u{v}") for v in verts}
        want = perc.expectation_poly(verts, edges, root, p, u)
        res.executions += 1
        res.transitions += 1
        bad = None
        try:
            if not numeric:
                got = evaluate(ae, f"g{gi}", verts, edges, root, p, u)
                if not isinstance(got, Poly) or got != want:
                    bad = f"differs from the exact expectation: {diff_summary(got, want) if isinstance(got, Poly) else got}"
        except Exception:
            numeric = True
            ae = AutomatedEquation()
        if numeric:
            try:
                bad = numeric_check(lambda: ae, f"g{gi}", verts, edges, root, want)
            except Exception as e:
                bad = f"raised {e!r}"
        if bad:
            res.violation("C15:shared-evaluator", f"one evaluator shared by all motifs of the box ({inst['order']} "
                          f"order): motif g{gi} edges={edges} focal={root}: {bad}", {"kind": "shared",
                                                                                       "order": inst["order"]})
            return
    res.states += 1
    res.flags.add("shared-sweep")
    res.samples.append({"shared_evaluator_sweep": inst["order"], "evaluations": len(items)})


def run_instance(inst, tier):
    res = Result()
    if inst["kind"] == "identity":
        run_identity(res, inst)
    elif inst["kind"] == "shared":
        run_shared(res, inst, tier)
    else:
        run_history(res)
    return res


def finalize(agg, tier):
    if agg.violations:
        return []
    return [] if "cache-states>=2" in agg.flags else ["vacuous exploration: evaluator cache never changed state"]


def replay(v):
    r = Result()
    if v["instance"].get("kind") == "shared":
        run_shared(r, v["instance"], v.get("tier", "quick"))
        for x in r.violations:
            print(x["key"], x["message"][:800])
        return 1 if r.violations else 0
    if v["instance"].get("kind") == "history":
        from gcmpy.message_passing.equations.automated_equation import AutomatedEquation
        try:
            apply_letter(AutomatedEquation(), ALPHABET[0])
        except Exception:
            SYMBOLIC_OK[0] = False
        ae = AutomatedEquation()
        val = None
        for letter in v["history"]:
            val = apply_letter(ae, tuple(letter))
        last = tuple(v["history"][-1])
        fresh = apply_letter(AutomatedEquation(), last)
        print("history", v["history"], "->", val, "fresh evaluator:", fresh)
        return 0 if same_value(val, fresh) else 1
    run_identity(r, dict(v["instance"], kind="identity"))
    for x in r.violations:
        print(x["key"], x["message"][:800])
    return 1 if r.violations else 0
