"""C08 - joint degrees derived from a clique cover count cliques per vertex."""
import itertools
from fractions import Fraction

from mc import engine
from mc.framework import Result

ID = "C08"
LEVEL = "model_checking"
BATCH = 1
RULE = ("every cover made of 1..3 (quick) / 1..4 (thorough) cliques, each a vertex subset of size 2..5 of {0..4}, in "
        "every order, whose union is a contiguous range from 0, and the same cover shifted to start at 1; direct and "
        "dispatched construction; table compared with per-vertex clique counts computed independently; then the "
        "sampler and GCMAlgorithmFast with clique motifs of the reported sizes are run once as a wiring check; "
        "non-trivial = cover with >= 2 distinct clique sizes")
BOUNDS = {"quick": "<= 3 cliques over 5 vertices, 4 cliques over 4 vertices, 7 covers with cliques of 8-12 vertices", "thorough": "<= 4 cliques over 5 vertices"}
ASSUMPTIONS = ["vertex ids are contiguous from 0 or 1, as the property requires",
               "the sampling/generation clause is checked as wiring on the default RNG resolution only"]


def covers(maxc):
    verts = range(5)
    subsets = [list(s) for k in range(2, 6) for s in itertools.combinations(verts, k)]
    for n in range(1, maxc + 1):
        for cov in itertools.product(subsets, repeat=n):
            u = set().union(*map(set, cov))
            if u == set(range(max(u) + 1)):
                yield [list(c) for c in cov]


ONE_CLIQUE_COVERS = [
    [[0, 1, 2], [2, 3], [4]], [[0], [1]], [[0, 1], [2]], [[2], [0, 1]], [[0, 1, 2, 3], [4], [5], [4, 5]],
    [[0], [0, 1], [0, 1, 2]],
]
BIG_COVERS = [
    [list(range(8)), [0, 8]],                                   # sizes {2, 8}
    [[0, 8], list(range(8))],
    [list(range(9)), [0, 9, 10], [1, 9]],                        # sizes {2, 3, 9}
    [list(range(10)), list(range(2, 10)), [0, 10]],              # sizes {2, 8, 10}
    [[0, 1, 2], list(range(3, 11)), [2, 3]],
    [list(range(1, 9)), [1, 9], [2, 9, 10]],                     # 1-based
    [list(range(12)), [0, 12], [1, 12, 13, 14]],                 # sizes {2, 4, 12}
    # a hub that lies in 300 edge-cliques and one triangle (per-vertex counts beyond 255)
    [[0, i] for i in range(1, 301)] + [[0, 301, 302]],
    # few vertices, many cliques: all 406 triangles through vertex 0 on 30 vertices plus a path of edges (a count
    # is bounded by the number of cliques, not by the number of vertices)
    [[0, a, b] for a in range(1, 30) for b in range(a + 1, 30)] + [[i, i + 1] for i in range(0, 29)],
]


def instances(tier, seed):
    yield {"covers": BIG_COVERS, "no_shift": True}
    yield {"covers": ONE_CLIQUE_COVERS}
    # four cliques (repetitions included) on the vertices {0..3}
    subs4 = [list(c) for k in range(2, 5) for c in itertools.combinations(range(4), k)]
    batch = []
    for cov in itertools.product(subs4, repeat=4):
        u = set().union(*map(set, cov))
        if u == set(range(max(u) + 1)):
            batch.append([list(c) for c in cov])
            if len(batch) >= 400:
                yield {"covers": batch}
                batch = []
    if batch:
        yield {"covers": batch}
    maxc = 3 if tier == "quick" else 4
    batch = []
    for cov in covers(maxc):
        batch.append(cov)
        if len(batch) >= 300:
            yield {"covers": batch}
            batch = []
    if batch:
        yield {"covers": batch}


def expected(cover):
    sizes = sorted({len(c) for c in cover})
    verts = sorted({v for c in cover for v in c})
    tuples = []
    for v in verts:
        tuples.append(tuple(sum(1 for c in cover if len(c) == s and v in c) for s in sizes))
    law = {}
    for tpl in tuples:
        law[tpl] = law.get(tpl, 0) + Fraction(1, len(verts))
    return sizes, law


def check_cover(cover, how):
    from gcmpy.joint_degree.joint_degree_distribution import JointDegreeDistribution
    from gcmpy.joint_degree.joint_degree_loaders.joint_degree_cover import JointDegreeCover
    from gcmpy.names.joint_degree_names import JointDegreeNames as JN
    from gcmpy.names.gcm_algorithm_names import GCMAlgorithmNames as GN
    from gcmpy.gcm_algorithm.gcm_algorithm_fast import GCMAlgorithmFast
    from gcmpy.motif_generators.clique_motif import clique_motif
    sizes, law = expected(cover)
    # cliques are handed over as lists or, for every other cover, as tuples
    as_tuple = sum(len(c) for c in cover) % 2 == 1
    params = {JN.COVER: [tuple(c) if as_tuple else list(c) for c in cover]}
    try:
        if how == "direct":
            obj = JointDegreeCover(params)
        else:
            params[JN.JOINT_DEGREE_TYPE] = "cover"
            obj = JointDegreeDistribution.load_joint_degree(params)
    except Exception as e:
        return ("C08:raises", f"loader raised {e!r}")
    if list(obj.motif_sizes) != sizes:
        return ("C08:motif-sizes", f"motif_sizes {obj.motif_sizes}, clique sizes occurring are {sizes}")
    jdd = obj.jdd
    if not isinstance(jdd, dict) or set(jdd) != set(law):
        absent = sorted(set(range(2, max(sizes) + 1)) - set(sizes))
        key = "C08:table-keys:two-or-more-absent-sizes" if len(absent) >= 2 else "C08:table-keys"
        return (key, f"table keys {sorted(jdd) if isinstance(jdd, dict) else jdd} != per-vertex clique counts "
                f"{sorted(law)} (columns = sizes {sizes})")
    for k, p in law.items():
        if abs(jdd[k] - float(p)) > 1e-12:
            return ("C08:table-values", f"P{k} = {jdd[k]}, expected {p}")
    # wiring: sample and generate with clique motifs of the reported sizes (default RNG resolution)
    N = len({v for c in cover for v in c})
    if N > 60 or len(cover) > 200:
        return None   # the wiring run is a smoke test; skipped for the large hub covers

    def body():
        jds = obj.sample_jds_from_jdd(N)
        g = GCMAlgorithmFast({GN.MOTIF_SIZES: list(obj.motif_sizes),
                              GN.BUILD_FUNCTIONS: [clique_motif] * len(sizes),
                              GN.EDGE_NAMES: [f"{s}-clique" for s in sizes]}).random_clustered_graph(jds)
        return jds, g.edge_list, g.topologies
    leaf = engine.execute(body, max_points=2000)
    if leaf.exception is not None:
        return ("C08:downstream", f"sampling/generating from the cover distribution raised {leaf.exception!r}")
    jds, el, tops = leaf.outcome
    for i, s in enumerate(sizes):
        col = sum(r[i] for r in jds)
        if col % s or tops.count(f"{s}-clique") != (col // s) * (s * (s - 1) // 2):
            return ("C08:downstream", f"generated {tops.count(f'{s}-clique')} edges of {s}-cliques from column "
                    f"sum {col}")
    return None


def run_instance(inst, tier):
    res = Result()
    for cover in inst["covers"]:
        for shift in ((0,) if inst.get("no_shift") else (0, 1)):
            cov = [[v + shift for v in c] for c in cover]
            sizes = sorted({len(c) for c in cov})
            for how in ("direct", "dispatch"):
                res.executions += 1
                res.states += 1
                res.transitions += 2
                bad = check_cover(cov, how)
                if bad:
                    res.violation(bad[0], f"cover={cov} ({how}): {bad[1]}", {"cover": cov}, how=how, cover=cov)
            if len(sizes) >= 2:
                res.nontrivial.add(tuple(map(tuple, cov)))
            absent = set(range(2, max(sizes) + 1)) - set(sizes)
            if len(absent) >= 2:
                res.flags.add("two-absent-sizes")
            if any(set(a) & set(b) for a, b in itertools.combinations(cov, 2)):
                res.flags.add("overlapping")
            if shift:
                res.flags.add("one-based")
        if len(res.violations) >= 20:
            break
    if not res.samples:
        res.samples.append({"cover": inst["covers"][-1], "also": "shifted to 1-based"})
    return res


def finalize(agg, tier):
    if agg.violations:
        return []
    return [f"vacuous exploration: {f} never seen" for f in ("two-absent-sizes", "overlapping", "one-based")
            if f not in agg.flags]


def replay(v):
    bad = check_cover(v["cover"], v.get("how", "direct"))
    print("cover:", v["cover"], "expected:", expected(v["cover"]))
    print("oracle:", bad)
    return 1 if bad else 0
