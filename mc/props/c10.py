"""C10 - MPCC labels partition the edges into maximal-first disjoint cliques, for every shuffle order."""
import ast
import functools
import itertools

from mc import engine, enumr
from mc.framework import Result

ID = "C10"
LEVEL = "model_checking"
RNG_LAW_PROPERTY = True   # see framework._work: a library-side random.seed() is a violation
BATCH = 1
RULE = ("for every graph in the box and every size limit, the real MPCC is run once per alternative offered at its "
        "shuffle point: the product over clique-size classes of all permutations of the class (classes of >= 3-vertex "
        "cliques with <= 6 members; otherwise identity, reversal, all rotations, all transpositions; edge and "
        "single-vertex classes: identity and reversal) x class interleaving (as enumerated / whole list reversed); "
        "non-trivial = graph with >= 2 cliques of >= 3 vertices sharing an edge")
BOUNDS = {"quick": "all labelled loop-free graphs on 2..4 vertices, all 34 atlas graphs on 5 vertices (those with <= 8 edges also under a non-contiguous shuffled labelling), 6-vertex atlas graphs with >= 5 edges and <= 1500 shuffle alternatives; limits "
                   "0,2..n; second call on a labelled graph for n<=4",
          "thorough": "all labelled graphs on 5 vertices; atlas graphs on 6 vertices with <= 11 edges in 2 labelings"}
ASSUMPTIONS = ["exhaustive over orders 'among equal-sized cliques' whenever every class of >= 3-vertex cliques has "
               "<= 6 members (flagged per instance); otherwise a stated cap on the orders",
               "vertex ids are non-negative ints (labels are parsed by splitting on '-')"]
EXHAUSTIVE = True


def class_orders(items, full_upto):
    return _class_orders(len(items), full_upto)


@functools.lru_cache(maxsize=None)
def _class_orders(n, full_upto):
    idx = list(range(n))
    if n <= full_upto:
        return [list(p) for p in itertools.permutations(idx)], True
    out = [idx, idx[::-1]]
    out += [idx[r:] + idx[:r] for r in range(1, n)]
    for a, b in itertools.combinations(range(n), 2):
        p = list(idx)
        p[a], p[b] = p[b], p[a]
        out.append(p)
    seen, uniq = set(), []
    for p in out:
        if tuple(p) not in seen:
            seen.add(tuple(p))
            uniq.append(p)
    return uniq, False


def make_alts(flagbox):
    def shuffle_alts(cliques):
        classes = {}
        for c in cliques:
            classes.setdefault(len(c), []).append(c)
        sizes = sorted(classes)
        per_class = []
        for s in sizes:
            items = classes[s]
            if s >= 3:
                orders, full = class_orders(items, 6)
                if not full:
                    flagbox["capped"] = True
            elif s == 2 and len(items) > 1:
                orders = [list(range(len(items))), list(range(len(items)))[::-1]]
            else:
                orders = [list(range(len(items)))]
            per_class.append((items, orders))
        radices = [len(o) for _, o in per_class] + [2 if len(cliques) > 1 else 1]
        count = 1
        for r in radices:
            count *= r

        def get(k):
            flat = []
            for (items, orders), r in zip(per_class, radices):
                k, d = divmod(k, r)
                flat.extend(items[i] for i in orders[d])
            return flat[::-1] if k % 2 else flat
        return count, get
    return shuffle_alts


def graphs(tier, seed):
    for n in range(2, 5):
        for mask in enumr.labelled_graph_masks(n):
            yield {"n": n, "edges": enumr.mask_edges(n, mask), "labels": None, "second_call": True}
    from networkx.generators.atlas import graph_atlas_g
    for g in graph_atlas_g():
        if g.number_of_nodes() == 5:
            yield {"n": 5, "edges": sorted(tuple(sorted(e)) for e in g.edges()), "labels": None,
                   "second_call": False}
            if g.number_of_edges() <= 8:
                yield {"n": 5, "edges": sorted(tuple(sorted(e)) for e in g.edges()),
                       "labels": enumr.relabelings(5, seed, kinds=("sparse",))[0], "second_call": False}
                # labels 1000, 1007, ...: each occurrence in the edge list is a separate int object
                yield {"n": 5, "edges": sorted(tuple(sorted(e)) for e in g.edges()),
                       "labels": enumr.relabelings(5, seed, kinds=("large",))[0], "second_call": False}
    if tier == "thorough":
        for mask in enumr.labelled_graph_masks(5):
            yield {"n": 5, "edges": enumr.mask_edges(5, mask), "labels": None, "second_call": False}
        for g in graph_atlas_g():
            if g.number_of_nodes() == 6 and g.number_of_edges() <= 11:
                es = sorted(tuple(sorted(e)) for e in g.edges())
                for lab in enumr.relabelings(6, seed, kinds=("identity", "sparse")):
                    yield {"n": 6, "edges": es, "labels": lab, "second_call": False}


def n_alternatives(edges):
    """Number of alternatives the shuffle point will offer for this graph (see make_alts)."""
    import networkx as nx
    g = nx.Graph()
    g.add_edges_from(edges)
    sizes = {}
    for c in nx.enumerate_all_cliques(g):
        sizes[len(c)] = sizes.get(len(c), 0) + 1
    total = 2
    for s_, k in sizes.items():
        if s_ >= 3:
            total *= len(_class_orders(k, 6)[0])
        elif s_ == 2 and k > 1:
            total *= 2
    return total


def dense6(tier, seed):
    """6-vertex graphs with >= 9 edges (two triangles of an octahedron-like core can only interact there) whose
    shuffle alternatives stay below a cap."""
    from networkx.generators.atlas import graph_atlas_g
    cap = 1500 if tier == "quick" else 150000
    for g in graph_atlas_g():
        if g.number_of_nodes() == 6 and g.number_of_edges() >= (5 if tier == "quick" else 12):
            es = sorted(tuple(sorted(e)) for e in g.edges())
            if n_alternatives(es) <= cap:
                yield {"n": 6, "edges": es, "labels": None, "second_call": False, "limits": [[None], [3], [4]]}


def instances(tier, seed):
    for g in dense6(tier, seed):
        for ls in g.pop("limits"):
            yield dict(g, limit_sets=[ls])
    for g in graphs(tier, seed):
        n = g["n"]
        limit_sets = [[None]] + [[m] for m in [0] + list(range(2, n + 1))]
        if g["second_call"] and g["edges"]:
            limit_sets += [[0, 2], [3, 0], [2, 3]]
        if len(g["edges"]) >= 8:
            for ls in limit_sets:
                yield dict(g, limit_sets=[ls])
        else:
            yield dict(g, limit_sets=limit_sets)


def make_body(verts, edges, limits, mutate=False):
    import networkx as nx
    from gcmpy.covers.mpcc import MPCC

    def body():
        G = nx.Graph()
        G.add_nodes_from(verts)
        G.add_edges_from(enumr.fresh_edges(edges[:-1] if mutate else edges))
        if mutate and mutate is not True:
            G.add_edge(*mutate)              # "rewired" history: a pair that is no edge of the final graph
        out = None
        for step, lim in enumerate(limits):
            if mutate and step == 1:
                if mutate is not True:
                    G.remove_edge(*mutate)   # ... is replaced by the last edge: same vertex and edge counts
                G.add_edge(*edges[-1])       # the graph changes between the two calls: the final graph has `edges`
            out = MPCC(G, lim) if lim is not None else MPCC(G)
        return (sorted(out.nodes()), sorted(tuple(sorted(e)) for e in out.edges()),
                {tuple(sorted(e)): out.edges[e].get("clique") for e in out.edges()}, out is G)
    return body


def oracle(verts, edges, limit, leaf, cliques):
    if leaf.exception is not None:
        return ("C10:exception", f"MPCC raised {leaf.exception!r}")
    nodes, es, labels, same = leaf.outcome
    if nodes != sorted(verts) or es != sorted(edges):
        return ("C10:graph-changed", f"returned graph has vertices {nodes} edges {es}")
    by_label = {}
    for e, lab in labels.items():
        if not isinstance(lab, str):
            return ("C10:edge-unlabelled", f"edge {e} has label {lab!r}")
        by_label.setdefault(lab, []).append(e)
    ids = {}
    cover = []
    for lab, les in by_label.items():
        parts = lab.split("-")
        try:
            size = int(parts[0])
            cid = int(parts[-1])
            members = ast.literal_eval("-".join(parts[1:-1]))
            members = list(members)
        except Exception:
            return ("C10:label-format", f"label {lab!r} is not of the form size-members-id")
        if len(members) != size or len(set(members)) != size:
            return ("C10:label-size", f"label {lab!r}: {len(members)} members for stated size {size}")
        if limit and size > limit:
            return ("C10:size-limit", f"label {lab!r} exceeds the size limit {limit}")
        want = sorted(tuple(sorted(p)) for p in itertools.combinations(members, 2))
        if sorted(les) != want:
            return ("C10:label-not-a-clique", f"label {lab!r} is carried by edges {sorted(les)}, the pairs of its "
                    f"members are {want}")
        if cid in ids:
            return ("C10:id-reused", f"id {cid} used by {ids[cid]!r} and {lab!r}")
        ids[cid] = lab
        cover.append((size, set(members)))
    owner = {}
    for size, mem in cover:
        for p in itertools.combinations(sorted(mem), 2):
            owner[p] = size
    for K in cliques:
        if limit and len(K) > limit:
            continue
        if not any(owner.get(p, 0) >= len(K) for p in itertools.combinations(K, 2)):
            return ("C10:not-maximal-first", f"clique {K} has no edge in a cover clique of >= {len(K)} vertices; "
                    f"cover = {sorted((s, sorted(m)) for s, m in cover)}")
    return None


def run_instance(inst, tier):
    res = Result()
    n = inst["n"]
    lab = inst["labels"] or list(range(n))
    verts = [lab[v] for v in range(n)]
    edges = sorted(tuple(sorted((lab[a], lab[b]))) for a, b in inst["edges"])
    cliques = enumr.all_cliques(verts, edges, 2)
    big = [set(c) for c in cliques if len(c) >= 3]
    overlapping = any(len(a & b) >= 2 for a, b in itertools.combinations(big, 2))
    runs = [(ls, False) for ls in inst["limit_sets"]]
    if inst["second_call"] and len(edges) >= 2:
        runs += [([0, 0], True), ([0, 3], True)]     # cover, add the last edge, cover again
        eset = set(edges)
        spare = [p for p in itertools.combinations(sorted(verts), 2) if p not in eset]
        if spare:
            # cover, move one edge (same number of vertices and edges before and after), cover again
            runs += [([0, 0], spare[0]), ([3, 0], spare[-1])]
            res.flags.add("rewired-between-calls")
    for limits, mutate in runs:
        flagbox = {}
        limit = limits[-1] or 0
        first = []

        def on_leaf(leaf):
            bad = oracle(verts, edges, limit, leaf, cliques)
            if bad and not first:
                first.append((bad, leaf.choices, leaf.run.resolved_calls()))
        st = engine.explore(make_body(verts, edges, limits, mutate), on_leaf, max_points=4,
                            shuffle_alts=make_alts(flagbox), track_prob=False, recheck_every=13,
                            sig=repr, max_leaves=3_000_000)
        res.executions += st.leaves
        res.states += st.leaves
        res.transitions += st.leaves + st.points
        res.revalidated += st.rechecked
        if st.points == 0 and st.leaves:
            raise engine.InfraError("MPCC made no controlled random call")
        if flagbox.get("capped"):
            res.count("instances_with_capped_orders")
            res.truncated += 1
        if first:
            (key, msg), choices, calls = first[0]
            res.violation(key, f"vertices={verts} edges={edges} limits={limits}"
                          f"{'' if not mutate else ' (last edge added between the two calls)' if mutate is True else f' (edge {mutate} replaced by the last edge between the two calls)'} order#{choices}: {msg}",
                          {"n": n, "edges": inst["edges"], "labels": inst["labels"]}, limits=limits, mutate=mutate,
                          choices=choices, shuffled_order=[c[1] for c in calls if c[0] == "shuffle"])
    if overlapping:
        res.nontrivial.add((tuple(verts), tuple(edges)))
        res.flags.add("overlapping-cliques")
    if len(verts) > len({v for e in edges for v in e}):
        res.flags.add("isolated-vertex")
    if overlapping and not res.samples:
        res.samples.append({"vertices": verts, "edges": edges, "limits": ["default", 0, 2, "..", n]})
    return res


def finalize(agg, tier):
    if agg.violations:
        return []
    return [f"vacuous exploration: {f} never seen" for f in ("overlapping-cliques", "isolated-vertex")
            if f not in agg.flags]


def replay(v):
    inst = v["instance"]
    n = inst["n"]
    lab = inst["labels"] or list(range(n))
    verts = [lab[x] for x in range(n)]
    edges = sorted(tuple(sorted((lab[a], lab[b]))) for a, b in inst["edges"])
    cliques = enumr.all_cliques(verts, edges, 2)
    limits = v["limits"]
    leaf = engine.execute_plain(make_body(verts, edges, limits, v.get("mutate", False)), v["choices"], max_points=4,
                                shuffle_alts=make_alts({}))
    print("vertices", verts, "edges", edges, "limits", limits)
    print("labels:", None if leaf.outcome is None else leaf.outcome[2], "exception:", leaf.exception)
    bad = oracle(verts, edges, limits[-1] or 0, leaf, cliques)
    print("oracle:", bad)
    return 1 if bad else 0
