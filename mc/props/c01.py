"""C01 - generated graphs realise exactly the requested joint degree sequence (every shuffle outcome)."""
from mc import engine, gen_common
from mc.framework import Result

ID = "C01"
LEVEL = "model_checking"
BATCH = 8
RULE = ("for every joint degree sequence in the box and every motif configuration of the catalogue, stateless DFS "
        "over every distinct arrangement of every topology's stub list (all resolutions of random.shuffle) of the "
        "real random_clustered_graph, on 6 construction paths (fast/network/custom x direct/factory); build "
        "callbacks are wrapped in recorders; non-trivial = instance with >= 2 distinct arrangements")
BOUNDS = {
    "quick": "N 1..4 vertices with entries 0..2 (t<=2 topologies/orbits) plus N<=3 with entries<=4 (t=1) and N<=2 with entries<=3 (t=2); 10 fast/network configs, 12 custom configs; "
             "instances with more than 500 distinct arrangements are skipped and counted",
    "thorough": "N<=5, entries<=3 (t=1); N<=4, entries<=2 and N<=5, entries<=1 (t=2); N<=4, entries<=1 and N<=3, entries<=2 (t=3); 13 fast + 14 custom configs; cap 5000 arrangements",
}
ASSUMPTIONS = ["equal stub values give identical executions, so distinct multiset arrangements (weighted by "
               "multiplicity) cover all n! permutations exactly",
               "inputs satisfy the handshake condition (for multi-orbit motifs: equal motif count per orbit)"]

PATHS = {"fast": ["fast-direct", "fast-factory", "network-direct", "network-factory"],
         "custom": ["custom-direct", "custom-factory"]}


def instances(tier, seed):
    cap = gen_common.BOX[tier]["leaf_cap"]
    for inst in gen_common.all_instances(tier):
        t = len(inst["jds"][0]) if inst["jds"] else 0
        inst["arrangements"] = gen_common.n_arrangements(inst["jds"], t)
        inst["skip"] = inst["arrangements"] > cap
        yield inst


def run_instance(inst, tier):
    res = Result()
    if inst["skip"]:
        res.skipped += 1
        return res
    jds = inst["jds"]
    if any(all(x == 0 for x in r) for r in jds):
        res.flags.add("zero-row")
    if len(jds[0]) >= 2:
        res.flags.add("multi-topology")
    reference = {}
    paths = list(PATHS[inst["kind"]])
    if 2 <= inst["arrangements"] <= 24:
        paths.append(f"{inst['kind']}-direct-twice")   # second generation on the same generator object
        paths.append(f"{inst['kind']}-direct-shrunk")  # ... after the caller's list lost two zero rows in place
    paths.append(f"{inst['kind']}-direct-grown")       # ... after the caller's (then all-zero) list was refilled in place
    if inst["kind"] == "fast" and tier == "thorough":
        paths.append("network-direct-grown")
    for path in paths:
        first = []
        sigs = {}

        def on_obs(obs, meta, leaf):
            bad = gen_common.check_c01(obs, meta, leaf)
            if bad and not first:
                first.append((bad, leaf.choices, leaf.run.resolved_calls()))
            sigs[tuple(leaf.choices)] = gen_common.sig(
                None if obs is None else {k: v for k, v in obs.items() if k in
                                          ("log", "edge_list", "topologies", "motif_id", "edges", "edge_data")})
        st, meta = gen_common.explore_instance(inst, tier, path, on_obs)
        res.executions += st.leaves
        res.states += st.leaves
        res.transitions += st.points + st.leaves
        res.revalidated += st.rechecked
        res.count(f"leaves:{path}", st.leaves)
        if st.leaves != inst["arrangements"] and len(path.split("-")) == 2:
            res.count("instances_where_leaves_differ_from_multiset_arrangements")
        if first:
            (key, msg), choices, calls = first[0]
            res.violation(key, f"{path} cfg={inst['cfg_name']} jds={jds} choices={choices}: {msg}",
                          {k: inst[k] for k in ("kind", "cfg", "cfg_name", "jds")}, path=path, choices=choices,
                          calls=calls, snippet=gen_common.gen_snippet(
                              {k: inst[k] for k in ("kind", "cfg", "cfg_name", "jds")}, tier, path, calls))
        kind, how = path.split("-")[:2]
        if len(path.split("-")) > 2:
            continue
        if how == "direct":
            reference[kind] = sigs
        elif not first and reference.get(kind) is not None and reference[kind] != sigs:
            diff = [c for c in sigs if reference[kind].get(c) != sigs[c]][:1]
            res.violation("C01:factory-differs-from-direct",
                          f"{path} cfg={inst['cfg_name']} jds={jds}: factory-built generator behaves differently "
                          f"from the directly built one for choices {diff}",
                          {k: inst[k] for k in ("kind", "cfg", "cfg_name", "jds")}, path=path,
                          choices=list(diff[0]) if diff else [])
    if inst["arrangements"] >= 2:
        res.nontrivial.add((inst["kind"], inst["cfg"], tuple(map(tuple, jds))))
    if inst["arrangements"] >= 6 and len(res.samples) < 1:
        res.samples.append({"config": inst["cfg_name"], "kind": inst["kind"], "jds": jds,
                            "distinct_arrangements_explored_per_path": inst["arrangements"]})
    return res


def finalize(agg, tier):
    if agg.violations:
        return []
    return [f"vacuous exploration: no instance with {f}" for f in ("zero-row", "multi-topology")
            if f not in agg.flags]


def replay(v):
    inst = v["instance"]
    tier = v.get("tier", "quick")
    body, meta = gen_common.make_body(inst, tier, v["path"])
    leaf = engine.execute_plain(body, v["choices"], max_points=400)
    obs = leaf.outcome
    print("instance:", inst, "path:", v["path"], "choices:", v["choices"])
    print("observation:", obs, "exception:", leaf.exception)
    bad = gen_common.check_c01(obs, meta, leaf)
    print("oracle:", bad)
    return 1 if bad else 0
