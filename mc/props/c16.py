"""C16 - closed-form clique and cycle equations and their graph counts are exact."""
import itertools
from fractions import Fraction
from functools import lru_cache
from math import comb

from mc import enumr, perc
from mc.framework import Result
from mc.poly import Poly, diff_summary

ID = "C16"
LEVEL = "model_checking"
BATCH = 1
RULE = ("clique_equation(tau) with tau-1 distinct symbols and chordless_cycle_equation(n) evaluated on symbolic phi "
        "are compared coefficient by coefficient with the 2^|E| enumeration on K_tau / C_n; Q(n,k) and QQ(n,k) are "
        "compared for every n, k with an enumeration of all labelled graphs on n vertices (bit-mask connectivity); "
        "Q(n,k) for larger n against an independent recursion validated against that enumeration; "
        "number_of_connected_graphs for every labelled substrate graph, focal vertex, vertex subset and k against "
        "bit-mask enumeration; non-trivial = one (function, argument) pair with a non-zero expected value")
BOUNDS = {"quick": "tau 2..6 (distinct symbols, all equal, and every pattern of equalities); cycles 3..12; Q, QQ: n 1..6 all k by enumeration, Q: n 7..22 all k by reference "
                   "recursion; counter: all labelled graphs on <= 4 vertices",
          "thorough": "tau 2..7; cycles 3..14; Q by enumeration to n=7; counter: all labelled graphs on <= 5 vertices"}
ASSUMPTIONS = ["for n >= 7 (8 in thorough) Q(n,k) is compared with a reference recursion (exponential formula over the "
               "component of vertex 1), itself validated against exhaustive enumeration for smaller n - stated as "
               "reference-model agreement, not enumeration",
               "polynomial identity covers all real phi and neighbour values",
               "call histories of the memoised counters: every ordered pair of Q / QQ calls with n <= 5 (6) from freshly "
               "loaded module state, and one descending pass from n = 14"]


def instances(tier, seed):
    for tau in range(2, (7 if tier == "quick" else 8)):
        yield {"kind": "clique", "tau": tau}
    for n in range(3, (13 if tier == "quick" else 15)):
        yield {"kind": "cycle", "n": n}
    for n in range(1, (7 if tier == "quick" else 8)):
        yield {"kind": "Qenum", "n": n}
    for lo, hi in ((7 if tier == "quick" else 8, 12), (13, 16), (17, 19), (20, 22)):
        yield {"kind": "Qref", "lo": lo, "hi": hi}
    yield {"kind": "QQ7"}
    # call histories: every ordered pair of calls of Q / QQ with n <= 5 (6 in thorough) from freshly loaded module state
    calls = [(f, n, k) for f in ("Q", "QQ") for n in range(1, (6 if tier == "quick" else 7))
             for k in range(0, n * (n - 1) // 2 + (2 if f == "Q" else 1))]   # QQ is only defined up to the complete graph
    for i in range(0, len(calls), 4):
        yield {"kind": "Qpairs", "first": calls[i:i + 4], "nmax": 5 if tier == "quick" else 6}
    yield {"kind": "Qdescending"}
    maxn = 4 if tier == "quick" else 5
    for n in range(1, maxn + 1):
        masks = list(enumr.labelled_graph_masks(n))
        step = 64 if n < 5 else 16
        for i in range(0, len(masks), step):
            yield {"kind": "counter", "n": n, "masks": masks[i:i + step]}
    # sparse connected 6-vertex substrates up to isomorphism (two triangles joined by a bridge, ...), vertex subsets
    # of >= 5 of the 6 vertices
    six = [es for nn, es in enumr.atlas_connected(6, 6, max_edges=8 if tier == "quick" else 10)]
    for i in range(0, len(six), 3):
        yield {"kind": "counter", "n": 6, "graphs": six[i:i + 3], "min_r": 4}


def connected_counts(n):
    """counts[k] = number of connected labelled graphs on n vertices with k edges (bit-mask enumeration)."""
    prs = enumr.pairs(n)
    m = len(prs)
    bits = [(1 << a) | (1 << b) for a, b in prs]
    full = (1 << n) - 1
    counts = [0] * (m + 1)
    for mask in range(1 << m):
        comp = 1
        occ = [bits[i] for i in range(m) if mask >> i & 1]
        changed = True
        while changed:
            changed = False
            for b in occ:
                if comp & b and comp | b != comp:
                    comp |= b
                    changed = True
        if comp == full:
            counts[len(occ)] += 1
    return counts


@lru_cache(maxsize=None)
def ref_Q(n, k):
    """Reference: all graphs = sum over the component of vertex 1 (size s, j edges) x arbitrary rest."""
    if n == 1:
        return 1 if k == 0 else 0
    if k < n - 1 or k > n * (n - 1) // 2:
        return 0
    total = comb(n * (n - 1) // 2, k)
    for s in range(1, n):
        rest = (n - s) * (n - s - 1) // 2
        for j in range(s - 1, s * (s - 1) // 2 + 1):
            if 0 <= k - j <= rest:
                total -= comb(n - 1, s - 1) * ref_Q(s, j) * comb(rest, k - j)
    return total


def run_instance(inst, tier):
    res = Result()
    kind = inst["kind"]
    p = Poly.var("p")
    if kind == "clique":
        from gcmpy.message_passing.equations.clique_equation import clique_equation
        tau = inst["tau"]
        verts = list(range(tau))
        edges = enumr.pairs(tau)
        u = {v: Poly.var(f"u{v}") for v in verts}
        want = perc.expectation_poly(verts, edges, 0, p, u)
        res.executions += 1
        res.states += 1
        res.transitions += 1
        try:
            got = clique_equation(tau, p, [u[v] for v in verts[1:]])
            if not isinstance(got, Poly):
                got = Poly.lift(got)
            if got != want:
                res.violation("C16:clique-equation", f"tau={tau}: clique_equation differs from the exact expectation "
                              f"on K_{tau}: {diff_summary(got, want)}", inst)
        except Exception as e:
            res.violation("C16:clique-equation-raises", f"tau={tau}: {e!r}", inst)
        # every pattern of equalities among the neighbour values (set partitions of the tau-1 positions)
        def partitions(n):
            if n == 0:
                yield []
                return
            for part in partitions(n - 1):
                for i in range(len(part) + 1):
                    yield part[:i] + [part[i] + [n - 1]] + part[i + 1:] if i < len(part) else part + [[n - 1]]
        if tau <= 6:
            for part in partitions(tau - 1):
                if len(part) in (1, tau - 1):
                    continue  # all equal / all distinct are covered separately
                sym = {}
                for bi, block in enumerate(part):
                    for pos in block:
                        sym[pos] = Poly.var(f"w{bi}")
                hs = [sym[i] for i in range(tau - 1)]
                wantp = perc.expectation_poly(verts, edges, 0, p, {v: hs[v - 1] for v in verts[1:]} | {0: Poly.const(1)})
                res.executions += 1
                try:
                    gotp = Poly.lift(clique_equation(tau, p, hs))
                    if gotp != wantp:
                        res.violation("C16:clique-equation", f"tau={tau}, neighbour values equal in blocks {part}: "
                                      f"differs from the exact expectation: {diff_summary(gotp, wantp)}", inst)
                        break
                except Exception as e:
                    res.violation("C16:clique-equation-raises", f"tau={tau} blocks {part}: {e!r}", inst)
                    break
        # boundary values as plain numbers: every assignment of {0, 1/2, 1} (ints, floats, Fractions mixed) to the
        # neighbour values, phi = 0.45
        if tau <= 6:
            forms = {0: (0.0, 0, Fraction(0)), 1: (1, 1.0, Fraction(1)), 2: (0.5, Fraction(1, 2), 0.5)}
            for ci, combo in enumerate(itertools.product((0, 1, 2), repeat=tau - 1)):
                hs = [forms[c][(ci + j) % 3] for j, c in enumerate(combo)]
                env = {"p": Fraction(9, 20), "u0": Fraction(1)}
                env.update({f"u{v}": Fraction(hs[v - 1]) for v in verts[1:]})
                w = float(want.subs(env))
                res.executions += 1
                try:
                    g = float(clique_equation(tau, 0.45, list(hs)))
                except Exception as e:
                    g = e
                if isinstance(g, Exception) or abs(g - w) > 1e-12:
                    res.violation("C16:clique-equation-boundary-values", f"tau={tau} phi=0.45 neighbour values {hs!r}: "
                                  f"clique_equation gives {g!r}, exact value {w}", inst)
                    break
            res.flags.add("boundary-values")
        # also with all neighbours equal and with numeric phi (common usage)
        uu = Poly.var("u")
        want2 = perc.expectation_poly(verts, edges, 0, p, {v: uu for v in verts})
        res.executions += 1
        try:
            if Poly.lift(clique_equation(tau, p, [uu] * (tau - 1))) != want2:
                res.violation("C16:clique-equation", f"tau={tau}, equal neighbours: differs", inst)
        except Exception as e:
            res.violation("C16:clique-equation-raises", f"tau={tau}: {e!r}", inst)
        res.nontrivial.add(("clique", tau))
        res.samples.append({"clique_equation": {"tau": tau, "arguments": f"phi=p, H = u1..u{tau - 1} (symbols)"}})
    elif kind == "cycle":
        from gcmpy.message_passing.equations.chordless_cycle_equation import chordless_cycle_equation
        n = inst["n"]
        verts = list(range(n))
        edges = [tuple(sorted((i, (i + 1) % n))) for i in range(n)]
        uu = Poly.var("u")
        want = perc.expectation_poly(verts, edges, 0, p, {v: uu for v in verts})
        res.executions += 1
        res.states += 1
        res.transitions += 1
        try:
            got = Poly.lift(chordless_cycle_equation(n, uu, p))
            if got != want:
                res.violation("C16:cycle-equation", f"n={n}: chordless_cycle_equation differs from the exact "
                              f"expectation on C_{n}: {diff_summary(got, want)}", inst)
        except Exception as e:
            res.violation("C16:cycle-equation-raises", f"n={n}: {e!r}", inst)
        res.nontrivial.add(("cycle", n))
    elif kind == "Qenum":
        from gcmpy.message_passing.number_connected_graphs import Q, QQ
        n = inst["n"]
        counts = connected_counts(n)
        for k in range(0, n * (n - 1) // 2 + 1):
            res.states += 1
            for fname, f in (("Q", Q), ("QQ", QQ)):
                if fname == "QQ" and n == 7:
                    continue
                res.executions += 1
                res.transitions += 1
                try:
                    got = f(n, k)
                except Exception as e:
                    res.violation(f"C16:{fname}-raises", f"{fname}({n},{k}) raised {e!r}", dict(inst, k=k, f=fname))
                    continue
                if got != counts[k]:
                    res.violation(f"C16:{fname}-count", f"{fname}({n},{k}) = {got}, there are {counts[k]} connected "
                                  f"labelled graphs with {n} vertices and {k} edges", dict(inst, k=k, f=fname))
            if counts[k]:
                res.nontrivial.add(("Q", n, k))
            if ref_Q(n, k) != counts[k]:
                res.infra.append(f"reference recursion disagrees with enumeration at ({n},{k})")
        # out-of-range k
        for k in (n * (n - 1) // 2 + 1, n * (n - 1) // 2 + 3):
            res.executions += 1
            try:
                if Q(n, k) != 0:
                    res.violation("C16:Q-count", f"Q({n},{k}) = {Q(n, k)} beyond the complete graph",
                                  dict(inst, k=k, f="Q"))
            except Exception as e:
                res.violation("C16:Q-raises", f"Q({n},{k}) raised {e!r}", dict(inst, k=k, f="Q"))
        res.samples.append({"n": n, "connected_labelled_graph_counts_by_edges": counts})
    elif kind == "QQ7":
        # the brute-force counter beyond n = 6, for the edge counts that are cheap to enumerate
        from gcmpy.message_passing.number_connected_graphs import QQ
        for k in (21, 20, 19, 18, 6, 5):
            res.executions += 1
            res.states += 1
            res.transitions += 1
            try:
                got = QQ(7, k)
            except Exception as e:
                got = repr(e)
            if got != ref_Q(7, k):
                res.violation("C16:QQ-count", f"QQ(7,{k}) = {got}, there are {ref_Q(7, k)} connected labelled graphs "
                              f"with 7 vertices and {k} edges", {"kind": "QQ7"})
            res.nontrivial.add(("QQ7", k))
    elif kind == "Qpairs":
        # a value cannot depend on what was asked before: for every first call a and every second call b, the module
        # is loaded afresh (empty memo tables), a is made, then b is made and compared with the enumeration
        import importlib
        import gcmpy.message_passing.number_connected_graphs as ncg
        nmax = inst["nmax"]
        counts = {n: connected_counts(n) for n in range(1, nmax + 1)}
        want = lambda n, k: counts[n][k] if k < len(counts[n]) else 0
        seconds = [(f, n, k) for f in ("Q", "QQ") for n in range(1, nmax + 1)
                   for k in range(0, n * (n - 1) // 2 + (2 if f == "Q" else 1))]
        for a in inst["first"]:
            a = tuple(a)
            for b in seconds:
                ncg = importlib.reload(ncg)
                res.executions += 1
                res.states += 1
                res.transitions += 2
                try:
                    getattr(ncg, a[0])(a[1], a[2])
                    got = getattr(ncg, b[0])(b[1], b[2])
                except Exception as e:
                    got = repr(e)
                if got != want(b[1], b[2]):
                    res.violation("C16:Q-depends-on-call-history",
                                  f"after {a[0]}({a[1]},{a[2]}) on freshly loaded module state, {b[0]}({b[1]},{b[2]}) = "
                                  f"{got}; there are {want(b[1], b[2])} such connected labelled graphs",
                                  {"kind": "Qpairs", "first": [list(a)], "nmax": nmax})
                    break
                if want(b[1], b[2]):
                    res.nontrivial.add(("Qpairs", a, b))
        importlib.reload(ncg)
        res.flags.add("call-pairs")
    elif kind == "Qdescending":
        # one long history in the opposite order of the other instances: n and k descending, Q and QQ interleaved
        import importlib
        import gcmpy.message_passing.number_connected_graphs as ncg
        ncg = importlib.reload(ncg)
        for n in range(14, 0, -1):
            for k in range(n * (n - 1) // 2 + 1, -1, -1):
                fs = ("Q", "QQ") if n <= 6 and k <= n * (n - 1) // 2 else ("Q",)
                for fname in fs:
                    res.executions += 1
                    res.states += 1
                    res.transitions += 1
                    try:
                        got = getattr(ncg, fname)(n, k)
                    except Exception as e:
                        got = repr(e)
                    if got != ref_Q(n, k):
                        res.violation("C16:Q-depends-on-call-history",
                                      f"in a descending pass from n=14, {fname}({n},{k}) = {got}, reference {ref_Q(n, k)}",
                                      {"kind": "Qdescending"})
                        return res
                    if got:
                        res.nontrivial.add(("Qdesc", fname, n, k))
        res.flags.add("descending-pass")
    elif kind == "Qref":
        from gcmpy.message_passing.number_connected_graphs import Q
        for n in range(inst["lo"], inst["hi"] + 1):
            for k in range(0, n * (n - 1) // 2 + 1):
                res.executions += 1
                res.states += 1
                res.transitions += 1
                try:
                    got = Q(n, k)
                except Exception as e:
                    res.violation("C16:Q-raises", f"Q({n},{k}) raised {e!r}", {"kind": "Qenum", "n": n, "k": k})
                    continue
                if got != ref_Q(n, k):
                    res.violation("C16:Q-count", f"Q({n},{k}) = {got}, reference recursion gives {ref_Q(n, k)}",
                                  {"kind": "Qref1", "n": n, "k": k})
                if ref_Q(n, k):
                    res.nontrivial.add(("Qref", n, k))
    else:
        import networkx as nx
        from gcmpy.message_passing.number_connected_graphs import number_of_connected_graphs
        n = inst["n"]
        labelings = [list(range(n))] + ([[7, 3, 12, 5][:n]] if n <= 3 else [])   # also non-contiguous, unsorted labels
        min_r = inst.get("min_r", 0)
        todo = [(m, enumr.mask_edges(n, m), l) for m in inst.get("masks", []) for l in labelings]
        todo += [(None, [tuple(e) for e in es], list(range(n))) for es in inst.get("graphs", [])]
        for mask, base_edges, lab in todo:
            edges = [(lab[a], lab[b]) for a, b in base_edges]
            G = nx.Graph()
            G.add_nodes_from(lab)
            G.add_edges_from(edges)
            for i in lab:
                others = [v for v in lab if v != i]
                for r in range(min_r, n):
                    for ak in itertools.combinations(others, r):
                        sub = set(ak) | {i}
                        sube = [e for e in edges if e[0] in sub and e[1] in sub]
                        res.states += 1
                        for k in range(0, len(sube) + 2):
                            want = 0
                            if k <= len(sube):
                                for rem in itertools.combinations(range(len(sube)), k):
                                    keep = [e for j, e in enumerate(sube) if j not in rem]
                                    if enumr.is_connected(0, keep, verts=sorted(sub)):
                                        want += 1
                            res.executions += 1
                            res.transitions += 1
                            try:
                                got = number_of_connected_graphs(G, list(ak), i, k)
                                # the focal vertex (or a repeated vertex) inside ak does not change the vertex set
                                if got == want and r <= 2:
                                    alt = number_of_connected_graphs(G, list(ak) + [i] + list(ak[:1]), i, k)
                                    if alt != want:
                                        got = f"{alt} (with the focal vertex and a repeated vertex listed in ak)"
                            except Exception as e:
                                got = repr(e)
                            if got != want:
                                res.violation("C16:counter", f"substrate edges={edges} focal={i} ak={list(ak)} k={k}: "
                                              f"number_of_connected_graphs = {got}, enumeration gives {want}",
                                              {"kind": "counter", "n": n, "masks": [mask]} if mask is not None else
                                              {"kind": "counter", "n": n, "graphs": [base_edges], "min_r": min_r})
                                if len(res.violations) > 5:
                                    return res
                            if want:
                                res.nontrivial.add((n, mask, i, ak, k))
    return res


def replay(v):
    inst = v["instance"]
    if inst.get("kind") == "Qref1":
        inst = {"kind": "Qref", "lo": inst["n"], "hi": inst["n"]}
    r = run_instance({k: x for k, x in inst.items() if k not in ("k", "f")}, v.get("tier", "quick"))
    for x in r.violations:
        print(x["key"], x["message"][:600])
    return 1 if r.violations else 0
