"""C18 - bond percolation keeps each edge independently with probability phi."""
import itertools
from fractions import Fraction
from math import comb

from mc import engine, enumr
from mc.framework import Result

ID = "C18"
LEVEL = "model_checking"
RNG_LAW_PROPERTY = True   # see framework._work: a library-side random.seed() is a violation
BATCH = 8
RULE = ("for every labelled graph in the box (edgeless and disconnected included), stars with 1..5 leaves, and phi in "
        "{0,1/4,1/2,3/4,1} (plus 1/10 and 999/1000 for graphs with <= 4 edges), stateless DFS over every outcome of the per-edge comparison of a symbolic uniform with phi "
        "in the real bond_percolate (2^|E| leaves with exact probabilities); each leaf's value is compared with the "
        "largest-component fraction of exactly the retained subgraph and the retained-edge law with the product "
        "Bernoulli(phi) law; non-trivial = (graph, phi) with >= 2 edges and 0 < phi < 1")
BOUNDS = {"quick": "all labelled graphs on 1..4 vertices and on 5 vertices with <= 6 edges; stars M=1..5; 3 relabeled 5-vertex graphs",
          "thorough": "all labelled graphs on 1..5 vertices and on 6 vertices with <= 6 edges; stars M=1..7"}
ASSUMPTIONS = ["random.random() is used only through order comparisons (symbolic uniform); which comparison outcome "
               "keeps an edge is inferred from the value the code returns, not assumed",
               "phi on a rational grid; other real phi are not covered"]
PHIS = [Fraction(0), Fraction(1, 4), Fraction(1, 2), Fraction(3, 4), Fraction(1)]
EXTRA_PHIS = [Fraction(0.1), Fraction(0.999), 1 - Fraction(1, 2 ** 35)]   # the floats 0.1 and 0.999 exactly (small graphs only)


def instances(tier, seed):
    for n in range(1, 7 if tier == "thorough" else 6):
        masks = list(enumr.labelled_graph_masks(n))
        if n == 5 and tier == "quick":
            masks = [m for m in masks if bin(m).count("1") <= 6]
        if n == 6:
            masks = [m for m in masks if bin(m).count("1") <= 6]
        for i in range(0, len(masks), 16):
            yield {"kind": "masks", "n": n, "masks": masks[i:i + 16]}
    for M in range(1, (5 if tier == "quick" else 7) + 1):
        yield {"kind": "star", "M": M}
    # disconnected graphs on 7-9 vertices in which the largest component does not contain a vertex of maximum degree
    for verts, es in (
            (7, [(0, 1), (1, 2), (3, 4), (4, 5), (5, 6)]),                    # P3 + P4
            (8, [(0, 1), (0, 2), (0, 3), (4, 5), (5, 6), (6, 7)]),            # star K1,3 + P4
            (9, [(0, 1), (0, 2), (0, 3), (0, 4), (5, 6), (6, 7), (7, 8), (5, 8)]),   # star K1,4 + 4-cycle
            (8, [(0, 1), (2, 3), (3, 4), (5, 6), (6, 7), (5, 7)]),            # K2 + P3 + triangle
            (7, [(0, 1), (0, 2), (0, 3), (1, 4), (4, 5), (5, 6)])):           # spider
        yield {"kind": "edges", "n": verts, "edges": es, "verts": list(range(verts))}
    # vertex labels that are tuples, inserted in an unusual order
    tl = [(1, 0), (0, 0), (0, 1), (2, 5)]
    yield {"kind": "edges", "n": 4, "edges": [(tl[2], tl[0]), (tl[0], tl[3]), (tl[1], tl[2])], "verts": [tl[3], tl[1], tl[0], tl[2]]}
    if tier == "quick":
        for es in ([(0, 1), (1, 2), (2, 3), (3, 4), (0, 4)], [(0, 1), (0, 2), (1, 2), (3, 4)],
                   [(0, 1), (0, 2), (0, 3), (1, 2), (1, 3), (2, 3), (3, 4)]):
            for kind in ("sparse", "large"):
                lab = enumr.relabelings(5, seed, kinds=(kind,))[0]
                yield {"kind": "edges", "n": 5, "edges": [(lab[a], lab[b]) for a, b in es], "verts": lab}


def largest_fraction(verts, edges):
    comps = enumr.components(verts, edges)
    return Fraction(max(len(c) for c in comps), len(verts))


def check_graph(res, verts, edges, phi, desc, star=False, rewired_from=None):
    import networkx as nx
    from gcmpy.tools.bond_percolate import bond_percolate
    g = nx.Graph()
    g.add_nodes_from(verts)
    g.add_edges_from(enumr.fresh_edges(edges))
    before = (sorted(g.nodes()), sorted(map(sorted, g.edges())))
    edge_order = [tuple(e) for e in g.edges()]
    N = len(verts)
    dist = {}
    first = []
    law_by_kept = {}

    holder = {"g": g}

    def body():
        if rewired_from is not None:
            # history on ONE graph object: percolated once as `rewired_from` (one fixed scripted schedule), then edited
            # in place into `edges` (same numbers of vertices and edges), and only the second call is explored
            h = nx.Graph()
            h.add_nodes_from(verts)
            h.add_edges_from(enumr.fresh_edges(rewired_from))
            with engine.scripted_prefix():
                bond_percolate(h, 0.5)
            h.remove_edges_from(list(h.edges()))
            h.add_edges_from(enumr.fresh_edges(edges))
            holder["g"] = h
        return bond_percolate(holder["g"], float(phi) if phi.denominator != 1 else (int(phi) if phi in (0, 1) else phi))

    def on_leaf(leaf):
        if first:
            return
        if leaf.exception is not None:
            first.append(("C18:exception", f"bond_percolate raised {leaf.exception!r}", leaf))
            return
        if (sorted(holder["g"].nodes()), sorted(map(sorted, holder["g"].edges()))) != before:
            first.append(("C18:input-mutated", "the input graph was modified", leaf))
            return
        val = leaf.outcome
        try:
            fv = Fraction(val).limit_denominator(1000)
        except Exception:
            first.append(("C18:value", f"returned {val!r}", leaf))
            return
        if fv * N != int(fv * N) or not Fraction(1, N) <= fv <= 1 or abs(float(fv) - float(val)) > 1e-12:
            first.append(("C18:value", f"returned {val!r}: not a multiple of 1/{N} in [1/{N},1]", leaf))
            return
        dist[fv] = dist.get(fv, 0) + leaf.prob
        law_by_kept[tuple(leaf.choices)] = (leaf.prob, fv)
    st = engine.explore(body, on_leaf, max_points=len(edges) + 2, recheck_every=5, max_leaves=1 << 16)
    res.executions += st.leaves
    res.states += st.leaves
    res.transitions += st.points + st.leaves
    res.revalidated += st.rechecked
    if st.cut_leaves or st.mass != 1:
        first.append(("C18:draws", f"more than one uniform comparison per edge (|E|={len(edges)})", None))
    if not first:
        # expected law of the value: enumerate all retained subsets with product-Bernoulli(phi) weights
        want = {}
        for mask in range(1 << len(edges)):
            kept = [edges[i] for i in range(len(edges)) if mask >> i & 1]
            p = phi ** len(kept) * (1 - phi) ** (len(edges) - len(kept))
            if p:
                v = largest_fraction(verts, kept)
                want[v] = want.get(v, 0) + p
        if dist != want:
            first.append(("C18:law", f"value law {({str(k): str(v) for k, v in sorted(dist.items())})} != "
                          f"law under independent retention with probability {phi}: "
                          f"{({str(k): str(v) for k, v in sorted(want.items())})}", None))
        # per-leaf: exactly |E| comparisons, each against phi; kept set consistent with the value
        if not first and 0 < phi < 1 and edges:
            if st.leaves != 1 << len(edges):
                first.append(("C18:draws", f"{st.leaves} RNG outcomes for {len(edges)} edges", None))
    if star and not first:
        M = len(edges)
        for k in range(M + 1):
            want_p = comb(M, k) * phi ** k * (1 - phi) ** (M - k)
            got = dist.get(Fraction(k + 1, N), 0)
            if got != want_p:
                first.append(("C18:star-binomial", f"star M={M}: P[(N*S-1)/M = {k}/{M}] = {got}, Binomial gives "
                              f"{want_p}", None))
                break
    if first:
        key, msg, leaf = first[0]
        if rewired_from is not None:
            msg = f"(second call on one graph object that was percolated as {rewired_from} and then edited in place) " + msg
        res.violation(key, f"vertices={verts} edges={edges} phi={phi}: {msg}", desc, verts=verts, edges=edges,
                      phi=str(phi), choices=None if leaf is None else leaf.choices)
    if len(edges) >= 2 and 0 < phi < 1:
        res.nontrivial.add((tuple(verts), tuple(edges), str(phi)))
    if len(enumr.components(verts, edges)) > 1:
        res.flags.add("disconnected")
    if not edges:
        res.flags.add("edgeless")


def run_instance(inst, tier):
    res = Result()
    if inst["kind"] == "masks":
        n = inst["n"]
        graphs = [(list(range(n)), enumr.mask_edges(n, m)) for m in inst["masks"]]
    elif inst["kind"] == "star":
        M = inst["M"]
        graphs = [(list(range(M + 1)), [(0, i) for i in range(1, M + 1)])]
    else:
        graphs = [(list(inst["verts"]), [tuple(e) for e in inst["edges"]])]
    for verts, edges in graphs:
        for phi in PHIS + (EXTRA_PHIS if len(edges) <= 4 else []):
            check_graph(res, verts, edges, phi, {k: v for k, v in inst.items() if k != "masks"},
                        star=inst["kind"] == "star")
            if len(res.violations) >= 5:
                return res
        # the same graph reached by editing another graph object in place (one edge moved) after a first call
        if inst["kind"] == "masks" and len(verts) == 4 and 1 <= len(edges) <= 5:
            eset = {tuple(sorted(e)) for e in edges}
            spare = [p for p in enumr.pairs(4) if p not in eset]
            if spare:
                old = [e for e in edges[:-1]] + [spare[0]]
                for phi in (Fraction(0), Fraction(1, 2), Fraction(1)):
                    check_graph(res, verts, edges, phi, {k: v for k, v in inst.items() if k != "masks"},
                                rewired_from=old)
                res.flags.add("rewired-between-calls")
                if len(res.violations) >= 5:
                    return res
    if not res.samples and inst["kind"] != "masks":
        res.samples.append({"graph": graphs[0], "phis": [str(p) for p in PHIS]})
    return res


def finalize(agg, tier):
    if agg.violations:
        return []
    return [f"vacuous exploration: {f} never seen" for f in ("disconnected", "edgeless") if f not in agg.flags]


def replay(v):
    r = Result()
    check_graph(r, v["verts"], [tuple(e) for e in v["edges"]], Fraction(v["phi"]), {}, star=False)
    if not r.violations:
        es = [tuple(e) for e in v["edges"]]
        spare = [p for p in enumr.pairs(len(v["verts"])) if p not in {tuple(sorted(e)) for e in es}]
        if spare and es:
            check_graph(r, v["verts"], es, Fraction(v["phi"]), {}, rewired_from=es[:-1] + [spare[0]])
    for x in r.violations:
        print(x["key"], x["message"])
    return 1 if r.violations else 0
