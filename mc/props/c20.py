"""C20 - DrawSet behaves as a set under any add/remove/draw history.

Explicit-state BFS to fixpoint over the real DrawSet, reference model = Python set.
"""
import copy
from collections import deque
from fractions import Fraction

from mc import engine
from mc.framework import Result

ID = "C20"
LEVEL = "model_checking"
RULE = ("explicit-state BFS to fixpoint: transitions are real DrawSet.add/remove calls (present and absent "
        "elements) over universes of 3 and 4 (quick) / 3, 4 and 5 (thorough) edge tuples; in every state len, iteration, "
        "membership and every RNG resolution of draw() are compared with a plain set; a state is "
        "non-trivial when it is a distinct ordered arrangement with >= 2 members")
BOUNDS = {"quick": "universes of 3, 3, 3, 4 and 5 elements (pairs and their reversals, colliding hashes, string ids), full reachable state space (fixpoint)",
          "thorough": "universes of 3, 3, 4, 5 and 6 elements, full reachable state space (fixpoint)"}
ASSUMPTIONS = ["one supplementary deterministic history over 300 elements is replayed in addition (not exhaustive; it only "
               "reaches list positions beyond 256)",
               "elements are hashable tuples, as in rewire(); draw() on an empty set and the exception type "
               "of remove(absent) are unspecified by the property and not checked",
               "canonical state = iteration order + repr of every instance attribute (over-fine on purpose)",
               "every add / remove / membership call receives an equal but not identical tuple object (as rewire() "
               "does with tuple(sorted(e))), so comparisons by identity inside the structure are visible"]


def instances(tier, seed):
    yield {"kind": "long"}
    yield {"universe": [(0, 1), (0, 2), (1, 2)]}
    # a pair and its reversal are different elements
    yield {"universe": [(0, 1), (1, 0), (0, 2)]}
    # equal hashes (hash(-1) == hash(-2) in CPython, so the two tuples collide in the index map), string vertex ids
    yield {"universe": [(-1, 0), (-2, 0), ("a", "b")]}
    # an element that is falsy (the empty tuple) next to ordinary ones
    yield {"universe": [(), (0, 1), (1, 2)]}
    if tier == "quick":
        yield {"universe": [(0, 1), (0, 2), (1, 2), (2, 1)]}
        yield {"universe": [(1, 2), (0, 5), (3, 4), (2, 1), (5, 0)]}
    else:
        yield {"universe": [(0, 1), (0, 2), (1, 2), (2, 1)]}
        yield {"universe": [(1, 2), (0, 5), (3, 4), (2, 1), (5, 0)]}
        yield {"universe": [(0, 1), (1, 0), (0, 2), (2, 0), (1, 2), (2, 1)]}


def canon(s):
    return (tuple(iter(s)), tuple(sorted((k, repr(v)) for k, v in vars(s).items())))


def fresh(x):
    """An equal but not identical element: callers such as rewire() pass tuple(sorted(e)), a new object every time."""
    return tuple(list(x))


def build(history):
    from gcmpy.tools.draw_set import DrawSet
    s = DrawSet()
    model = set()
    for op, x in history:
        x = fresh(x)
        if op == "add":
            s.add(x)
            model.add(x)
        elif op == "remove":
            if x in model:
                s.remove(x)
                model.remove(x)
            else:
                try:
                    s.remove(x)
                except Exception:
                    pass
    return s, model


def check_state(s, model, universe, res, hist):
    """Observable behaviour of s against the model.  Returns a message or None."""
    if len(s) != len(model):
        return f"len {len(s)} != {len(model)}"
    items = list(iter(s))
    if sorted(items, key=repr) != sorted(model, key=repr) or len(items) != len(set(items)):
        return f"iteration {items} != members {sorted(model, key=repr)}"
    for x in universe:
        if (fresh(x) in s) != (x in model):
            return f"membership of {x}: {x in s} vs model {x in model}"
    if model:
        seen = {}

        def leaf(lf):
            if lf.exception is not None:
                seen[("EXC", repr(lf.exception))] = lf.prob
            else:
                seen[lf.outcome] = seen.get(lf.outcome, 0) + lf.prob
        st = engine.explore(lambda: s.draw(), leaf, max_points=8, recheck_every=1)
        res.executions += st.leaves
        res.revalidated += st.rechecked
        if st.leaves == 0 or st.points == 0:
            res.infra.append("draw() made no controlled random call")
        if set(seen) != set(model):
            return f"draw() can return {sorted(seen, key=repr)} but members are {sorted(model, key=repr)}"
        if any(p != Fraction(1, len(model)) for p in seen.values()):
            return f"draw() not uniform: {seen}"
    return None


def run_long(inst, res):
    """Supplementary, NOT exhaustive: one deterministic history over 300 elements (list positions >= 257), compared
    with the model after every operation."""
    from gcmpy.tools.draw_set import DrawSet
    s, model = DrawSet(), set()
    ops = [("add", (i, i + 1)) for i in range(300)]
    ops += [("remove", (299, 300)), ("remove", (0, 1)), ("add", (299, 300)), ("remove", (298, 299)),
            ("remove", (299, 300)), ("remove", (150, 151)), ("add", (0, 1))]
    ops += [("remove", (i, i + 1)) for i in range(297, 255, -1)]
    for k, (op, x) in enumerate(ops):
        res.executions += 1
        res.transitions += 1
        try:
            getattr(s, op)(x)
            getattr(model, op)(x)
        except Exception as e:
            res.violation("C20:long-history", f"operation #{k} {op}{x} on a set of {len(model)} elements raised {e!r}",
                          {"kind": "long"}, history=[list(o) for o in ops[:k + 1]])
            return
        if len(s) != len(model) or set(iter(s)) != model or len(list(iter(s))) != len(model) \
                or (x in s) != (x in model):
            res.violation("C20:long-history", f"after operation #{k} {op}{x}: {len(s)} elements, model has "
                          f"{len(model)}", {"kind": "long"}, history=[list(o) for o in ops[:k + 1]])
            return
    res.states += 1
    res.flags.add("long-history")


def run_instance(inst, tier):
    res = Result()
    if inst.get("kind") == "long":
        run_long(inst, res)
        return res
    universe = [tuple(x) for x in inst["universe"]]
    s0, m0 = build([])
    seen = {canon(s0): []}
    frontier = deque([(s0, m0, [])])
    cap = 400000
    while frontier:
        s, model, hist = frontier.popleft()
        res.states += 1
        msg = check_state(s, model, universe, res, hist)
        if msg:
            res.violation("C20:state-disagrees-with-set", f"after history {hist}: {msg}", inst,
                          history=hist, model=sorted(model, key=repr))
            continue
        if len(model) >= 2:
            res.nontrivial.add(tuple(iter(s)))
        # trace validation: the shortest history, replayed on a fresh object, reaches the same state
        s2, m2 = build(hist)
        res.revalidated += 1
        if canon(s2) != canon(s) or m2 != model:
            res.infra.append(f"replay of {hist} reaches a different state")
            continue
        for x in universe:
            for op in ("add", "remove"):
                t = copy.deepcopy(s)
                tm = set(model)
                before = canon(t)
                res.transitions += 1
                res.executions += 1
                h2 = hist + [(op, x)]
                if op == "add":
                    try:
                        t.add(fresh(x))
                    except Exception as e:
                        res.violation("C20:add-raises", f"add({x}) raised {e!r} after {hist}", inst, history=h2)
                        continue
                    tm.add(x)
                    if x in model and canon(t) != before:
                        res.violation("C20:add-present-changes-state",
                                      f"add({x}) of a present element changed the structure after {hist}",
                                      inst, history=h2)
                        continue
                else:
                    if x in model:
                        res.flags.add("remove-last-slot" if list(iter(s))[-1] == x else "remove-inner-slot")
                        if len(model) == 1:
                            res.flags.add("remove-to-empty")
                        try:
                            t.remove(fresh(x))
                        except Exception as e:
                            res.violation("C20:remove-present-raises",
                                          f"remove({x}) raised {e!r} after {hist}", inst, history=h2)
                            continue
                        tm.remove(x)
                    else:
                        res.flags.add("remove-absent")
                        try:
                            t.remove(fresh(x))
                            raised = False
                        except Exception:
                            raised = True
                        if not raised:
                            res.violation("C20:remove-absent-silent",
                                          f"remove({x}) of an absent element did not raise after {hist}",
                                          inst, history=h2)
                            continue
                        if canon(t) != before:
                            res.violation("C20:remove-absent-corrupts",
                                          f"remove({x}) of an absent element changed the structure after {hist}",
                                          inst, history=h2)
                            continue
                k = canon(t)
                if k not in seen:
                    if len(seen) >= cap:
                        res.infra.append(f"more than {cap} states: state space not finite as expected")
                        frontier.clear()
                        break
                    seen[k] = h2
                    if len(hist) >= 1 and not tm:
                        res.flags.add("reinsert-after-empty")
                    frontier.append((t, tm, h2))
    # steps that are NOT observed in between: from every reachable state (which has just been observed: len, iteration,
    # membership, draw) apply every pair of operations back to back and only then observe again
    if len(universe) <= 4 and not res.violations:
        ops = [(op, x) for x in universe for op in ("add", "remove")]
        for k, hist in list(seen.items()):
            s, model = build(hist)
            list(iter(s)), len(s)
            for o1 in ops:
                for o2 in ops:
                    t = copy.deepcopy(s)
                    tm = set(model)
                    for op, x in (o1, o2):
                        try:
                            (t.add if op == "add" else t.remove)(fresh(x))
                            (tm.add if op == "add" else tm.discard)(x)
                        except Exception:
                            pass
                    res.executions += 1
                    res.transitions += 2
                    items = list(iter(t))
                    if len(t) != len(tm) or sorted(items, key=repr) != sorted(tm, key=repr) or \
                            any((fresh(x) in t) != (x in tm) for x in universe):
                        res.violation("C20:unobserved-steps", f"after history {hist} (observed), then {o1}, {o2} without "
                                      f"looking in between: iteration {items}, len {len(t)}, model "
                                      f"{sorted(tm, key=repr)}", inst, history=hist + [o1, o2])
                        break
                else:
                    continue
                break
            if res.violations:
                break
        res.flags.add("unobserved-pairs")
    if len(res.samples) < 3:
        longest = max(seen.values(), key=len)
        res.samples.append({"universe": universe, "states": len(seen), "deepest_shortest_history": longest})
    res.count("reachable_states", len(seen))
    return res


def finalize(agg, tier):
    need = {"remove-last-slot", "remove-inner-slot", "remove-to-empty", "remove-absent"}
    if agg.violations:
        return []
    missing = need - agg.flags
    return [f"vacuous exploration, never exercised: {sorted(missing)}"] if missing else []


def replay(v):
    if v["instance"].get("kind") == "long":
        r = Result()
        run_long({}, r)
        for x in r.violations:
            print(x["key"], x["message"])
        return 1 if r.violations else 0
    hist = [(op, tuple(x)) for op, x in v["history"]]
    s, model = build(hist[:-1]) if hist else build([])
    print("history:", hist)
    s, model = build(hist)
    print("DrawSet iteration:", list(iter(s)), "len", len(s), "internals", vars(s))
    print("model set        :", sorted(model, key=repr))
    uni = [tuple(x) for x in v["instance"]["universe"]]
    msg = check_state(s, model, uni, Result(), hist)
    print("disagreement:", msg)
    return 1 if msg else 0
