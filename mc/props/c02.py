"""C02 - edge-list columns stay parallel, motif ids well formed (every shuffle outcome)."""
from mc import engine, gen_common
from mc.framework import Result

ID = "C02"
LEVEL = "model_checking"
BATCH = 8
RULE = ("same exploration as C01 (every joint degree sequence in the box x motif catalogue x every distinct stub "
        "arrangement) on the edge-list generators (fast and custom, direct and factory); catalogue includes build "
        "callbacks returning a bare edge, a one-edge list, exactly two edges, k edges with homogeneous and with "
        "per-edge names; non-trivial = instance producing >= 2 motif instances")
BOUNDS = gen_common and {
    "quick": "N 1..4, entries 0..2, plus N<=3 entries<=4 (t=1), N<=2 entries<=3 (t=2); 10 fast + 12 custom configs; instances above 500 distinct arrangements skipped",
    "thorough": "N<=5, entries<=3 (t=1); N<=4, entries<=2 and N<=5, entries<=1 (t=2); N<=4, entries<=1 and N<=3, entries<=2 (t=3); 13 fast + 14 custom configs; cap 5000 arrangements",
}
ASSUMPTIONS = ["a naming callback returns one name per edge (a bare string only for a single-edge motif)",
               "rows of one motif id are compared with one recorded callback return as multisets of (edge, name)"]
PATHS = {"fast": ["fast-direct", "fast-factory"], "custom": ["custom-direct", "custom-factory"]}


def instances(tier, seed):
    cap = gen_common.BOX[tier]["leaf_cap"]
    for inst in gen_common.all_instances(tier):
        inst["arrangements"] = gen_common.n_arrangements(inst["jds"], len(inst["jds"][0]))
        inst["skip"] = inst["arrangements"] > cap
        yield inst


def run_instance(inst, tier):
    res = Result()
    if inst["skip"]:
        res.skipped += 1
        return res
    jds = inst["jds"]
    small = {k: inst[k] for k in ("kind", "cfg", "cfg_name", "jds")}
    paths = list(PATHS[inst["kind"]])
    if 2 <= inst["arrangements"] <= 24:
        paths.append(f"{inst['kind']}-direct-twice")   # second generation on the same generator object
    paths.append(f"{inst['kind']}-direct-grown")       # second generation after the caller's list was refilled in place
    for path in paths:
        first = []
        n_motifs = [0]

        def on_obs(obs, meta, leaf):
            bad = gen_common.check_c02(obs, meta, leaf)
            if bad and not first:
                first.append((bad, leaf.choices, leaf.run.resolved_calls()))
            if obs and "log" in obs:
                n_motifs[0] = max(n_motifs[0], len(obs["log"]))
        st, meta = gen_common.explore_instance(inst, tier, path, on_obs)
        res.executions += st.leaves
        res.states += st.leaves
        res.transitions += st.points + st.leaves
        res.revalidated += st.rechecked
        res.count(f"leaves:{path}", st.leaves)
        if n_motifs[0] >= 2:
            res.nontrivial.add((inst["kind"], inst["cfg"], tuple(map(tuple, jds))))
            res.flags.add("shape:" + inst["cfg_name"])
        if first:
            (key, msg), choices, calls = first[0]
            res.violation(key, f"{path} cfg={inst['cfg_name']} jds={jds} choices={choices}: {msg}", small,
                          path=path, choices=choices, calls=calls,
                          snippet=gen_common.gen_snippet(small, tier, path, calls))
    if n_motifs[0] >= 3 and len(res.samples) < 1:
        res.samples.append({"config": inst["cfg_name"], "kind": inst["kind"], "jds": jds,
                            "distinct_arrangements": inst["arrangements"]})
    return res


def finalize(agg, tier):
    if agg.violations:
        return []
    need = ["shape:bare-edge", "shape:two-edge-path", "shape:one-edge-list", "shape:diamond-2-orbits",
            "shape:clique2+clique3"]
    return [f"vacuous exploration: motif shape never produced >= 2 instances: {f}" for f in need
            if f not in agg.flags]


def replay(v):
    inst = v["instance"]
    body, meta = gen_common.make_body(inst, v.get("tier", "quick"), v["path"])
    leaf = engine.execute_plain(body, v["choices"], max_points=400)
    obs = leaf.outcome
    print("instance:", inst, "path:", v["path"], "choices:", v["choices"])
    print("observation:", obs, "exception:", leaf.exception)
    bad = gen_common.check_c02(obs, meta, leaf)
    print("oracle:", bad)
    return 1 if bad else 0
