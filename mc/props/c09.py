"""C09 - EECC returns an edge-disjoint edge clique cover within the size bound, for every tie-break."""
import itertools

from mc import engine, enumr
from mc.framework import Result

ID = "C09"
LEVEL = "model_checking"
BATCH = 2
RULE = ("stateless DFS over every tie-break sequence (random.choice in the greedy loop) of the real "
        "EECC.get_EECC for every labelled graph without isolated vertices in the box and every m0; a case is "
        "non-trivial when the graph has a clique larger than m0 or the run reached >= 1 tie-break point")
BOUNDS = {
    "quick": "all labelled graphs without isolated vertices on 2..6 vertices x m0 in 2..n+1 x all tie-breaks; "
             "suite fixture (14 vertices) for m0 2..5; all 853 connected atlas graphs on 7 vertices in 2 labelings x m0 2..5 (K7, K7-e at m0=3 only in thorough); sparse 8-vertex graphs (7-vertex graph with <= 9 edges + a pendant vertex) x m0 2..4; K8 minus every graph with <= 4 edges x m0 5..8",
    "thorough": "quick + all connected atlas graphs on 7 vertices in 3 labelings x m0 2..8 x all tie-breaks "
                "+ all labelled graphs on 6 vertices under a 1-based shuffled relabeling",
}
ASSUMPTIONS = ["graphs are built with add_edges_from on a fresh EECC object, as the test-suite does",
               "termination bound: at most |E| tie-break points per run (each pick must remove an edge)"]

FIXTURE = [(1, 2), (1, 14), (2, 4), (2, 13), (2, 14), (3, 4), (3, 5), (4, 5), (4, 13), (4, 14), (6, 7), (6, 13),
           (7, 8), (7, 13), (8, 9), (8, 13), (9, 10), (9, 11), (9, 13), (10, 11), (11, 12), (12, 13), (13, 14)]


def _tri(*ts):
    return sorted({tuple(sorted(p)) for t in ts for p in itertools.combinations(t, 2)})


TRIANGLE_COMPLEXES = [
    # bowtie {0,1,2},{0,3,4}; its wings joined by the diamonds {1,5,6}/{3,5,6} and {2,7,8}/{4,7,8}
    _tri((0, 1, 2), (0, 3, 4), (1, 5, 6), (3, 5, 6), (2, 7, 8), (4, 7, 8)),
    # the same with only one diamond, and with the diamonds on the same wing pair
    _tri((0, 1, 2), (0, 3, 4), (1, 5, 6), (3, 5, 6)),
    _tri((0, 1, 2), (0, 3, 4), (1, 5, 6), (3, 5, 6), (1, 7, 8), (3, 7, 8)),
    # triangle strip on 9 vertices
    _tri(*[(i, i + 1, i + 2) for i in range(7)]),
    # three bowties in a ring
    _tri((0, 1, 2), (2, 3, 4), (4, 5, 6), (6, 7, 8), (8, 9, 0)),
    # octahedron with two pendant triangles
    _tri((0, 1, 2), (0, 2, 3), (0, 3, 4), (0, 4, 1), (5, 1, 2), (5, 2, 3), (5, 3, 4), (5, 4, 1), (0, 6, 7), (5, 8, 9)),
]


def instances(tier, seed):
    if tier == "quick":
        # every connected 7-vertex graph up to isomorphism, two labelings, the size bounds around the clique number
        # (first, densest first: their tie-break trees are the largest)
        for n, edges in sorted(enumr.atlas_connected(7, 7), key=lambda g: -len(g[1])):
            for lab in enumr.relabelings(7, seed, kinds=("identity", "reversed")):
                for m0 in (2, 3, 4, 5):
                    if m0 == 3 and len(edges) >= 20:
                        continue  # K7 and K7 minus an edge at m0 = 3: 2*10^4 tie-break sequences (thorough tier)
                    yield {"kind": "edges", "edges": edges, "m0s": [m0], "labels": lab}
    # dense graphs on 8 (thorough: 9) vertices: K_n minus every graph with <= 4 edges, size bounds near the clique number
    for n in ((8,) if tier == "quick" else (8, 9)):
        for edges in enumr.near_complete_graphs(n, 4):
            for lab in enumr.relabelings(n, seed, kinds=("identity", "reversed")):
                yield {"kind": "edges", "edges": edges, "m0s": list(range(n - 3, n + 1)), "labels": lab}
    # sparse graphs on 8 vertices: every connected 7-vertex graph with <= 9 edges plus a pendant vertex at each vertex
    for n, edges in enumr.atlas_connected(7, 7, max_edges=9 if tier == "quick" else 11):
        for at in range(7):
            yield {"kind": "edges", "edges": edges + [(at, 7)], "m0s": [2, 3, 4], "labels":
                   enumr.relabelings(8, seed, kinds=("identity" if at % 2 else "reversed",))[0]}
    # two K_n sharing one edge, m0 = n (overlap scores as small as 1/C(n,2)); and a hand catalogue of 9-10 vertex
    # "triangle complexes" (bowties whose wings are joined by diamonds, triangle strips, octahedron + pendant triangles)
    for n in range(3, 17 if tier == "quick" else 19):
        a = list(range(n))
        b = [0, 1] + list(range(n, 2 * n - 2))
        edges = sorted({tuple(sorted(p)) for c in (a, b) for p in itertools.combinations(c, 2)})
        yield {"kind": "edges", "edges": edges, "m0s": [n] + ([n - 1] if n <= 7 else []), "labels": None}
    # vertex labels 1000, 1007, ... (every occurrence of a label in the edge list is a separate int object)
    for n in range(3, 6):
        masks = list(enumr.labelled_graph_masks(n, no_isolated=True))
        for i in range(0, len(masks), 96):
            yield {"kind": "masks", "n": n, "masks": masks[i:i + 96], "m0s": list(range(2, n + 1)),
                   "labels": enumr.relabelings(n, seed, kinds=("large",))[0]}
    for edges in TRIANGLE_COMPLEXES:
        for lab in enumr.relabelings(1 + max(v for e in edges for v in e), seed, kinds=("identity", "reversed", "large")):
            yield {"kind": "edges", "edges": edges, "m0s": [2, 3, 4], "labels": lab, "reused": lab[0] == 0}
    # every graph on <= 5 vertices once more on a REUSED object (see run_eecc)
    for n in range(3, 6):
        masks = list(enumr.labelled_graph_masks(n, no_isolated=True))
        for i in range(0, len(masks), 96):
            yield {"kind": "masks", "n": n, "masks": masks[i:i + 96], "m0s": list(range(2, n + 1)), "labels": None,
                   "reused": True}
    for n in range(2, 7):
        masks = list(enumr.labelled_graph_masks(n, no_isolated=True))
        step = 96
        for i in range(0, len(masks), step):
            yield {"kind": "masks", "n": n, "masks": masks[i:i + step], "m0s": list(range(2, n + 2)),
                   "labels": None}
    yield {"kind": "edges", "edges": FIXTURE, "m0s": [2, 3, 4, 5], "labels": None}
    if tier == "thorough":
        for n, edges in enumr.atlas_connected(7, 7):
            for lab in enumr.relabelings(7, seed):
                yield {"kind": "edges", "edges": edges, "m0s": list(range(2, 9)), "labels": lab}
        lab = enumr.relabelings(6, seed, kinds=("shifted",))[0]
        masks = list(enumr.labelled_graph_masks(6, no_isolated=True))
        for i in range(0, len(masks), 96):
            yield {"kind": "masks", "n": 6, "masks": masks[i:i + 96], "m0s": [2, 3, 4, 7], "labels": lab}


def run_eecc(edges, m0, reused=False):
    from gcmpy.covers.eecc import EECC

    def body():
        g = EECC()
        if reused:
            # history on ONE object: it first covers another graph (one fixed scripted schedule), is handed this graph
            # through its G setter, is asked for the size-limited maximal cliques under a larger bound, and only then
            # covers this graph with bound m0 (the explored call)
            import networkx as nx
            with engine.scripted_prefix():
                g.add_edges_from([(0, 1), (0, 2), (1, 2), (2, 3), (3, 4), (2, 4), (4, 5)])
                g.set_max_clique_size(3)
                g.get_EECC()
            G2 = nx.Graph()
            G2.add_edges_from(list(edges))
            g.G = G2
            g.set_max_clique_size(m0 + 2)
            g.limited_maximal_cliques()
        else:
            g.add_edges_from(list(edges))
        g.set_max_clique_size(m0)
        cover = g.get_EECC()
        return cover, g.has_edges()
    return body


def oracle(edges, m0, leaf, must_keep):
    """Return (key, message) or None."""
    if leaf.cut:
        return ("C09:no-termination", f"more than |E|={len(edges)} tie-break points: the greedy loop does not "
                "remove an edge per pick")
    if leaf.exception is not None:
        return ("C09:exception", f"get_EECC raised {leaf.exception!r}")
    cover, has_edges = leaf.outcome
    eset = {frozenset(e) for e in edges}
    covered = {}
    try:
        for c in cover:
            c = list(c)
            if len(set(c)) != len(c):
                return ("C09:repeated-vertex", f"cover element {c} repeats a vertex")
            if not 2 <= len(c) <= m0:
                return ("C09:size-bound", f"cover element {c} has {len(c)} vertices, allowed 2..{m0}")
            for p in itertools.combinations(c, 2):
                fp = frozenset(p)
                if fp not in eset:
                    return ("C09:not-a-clique", f"cover element {c} is not a clique of the input: {p} is no edge")
                covered[fp] = covered.get(fp, 0) + 1
    except TypeError as e:
        return ("C09:malformed", f"cover {cover!r} is not a list of vertex lists ({e})")
    dup = [sorted(e) for e, k in covered.items() if k > 1]
    if dup:
        return (f"C09:edge-covered-twice:m0={'2' if m0 == 2 else '>=3'}",
                f"edges covered more than once: {sorted(dup)[:4]}")
    missing = [sorted(e) for e in eset if e not in covered]
    if missing:
        return ("C09:edge-uncovered", f"edges not covered: {sorted(missing)[:4]}")
    if has_edges:
        return ("C09:working-graph-not-empty", "has_edges() is still true after get_EECC")
    got = {tuple(sorted(c)) for c in cover}
    for k in must_keep:
        if tuple(k) not in got:
            return ("C09:isolated-maximal-clique-split",
                    f"maximal clique {k} (<= m0 vertices, shares no edge with another maximal clique) not in cover")
    return None


def check_graph(res, edges, m0, inst_desc, reused=False):
    verts = sorted({v for e in edges for v in e})
    mc = enumr.maximal_cliques(verts, edges)
    # maximal cliques of <= m0 vertices sharing no edge with another maximal clique
    must_keep = []
    for k in mc:
        if len(k) <= m0:
            ke = {frozenset(p) for p in itertools.combinations(k, 2)}
            if not any(o is not k and ke & {frozenset(p) for p in itertools.combinations(o, 2)} for o in mc):
                must_keep.append(k)
    big = max(len(k) for k in mc) > m0
    body = run_eecc(edges, m0, reused)
    state = {"first": None, "leaves": 0, "maxpts": 0}

    def on_leaf(leaf):
        state["leaves"] += 1
        state["maxpts"] = max(state["maxpts"], len(leaf.run.points))
        bad = oracle(edges, m0, leaf, must_keep)
        if bad and state["first"] is None:
            state["first"] = (bad, leaf.choices, leaf.run.resolved_calls(),
                              None if leaf.outcome is None else leaf.outcome[0])
    st = engine.explore(body, on_leaf, max_points=len(edges) + 1, track_prob=False, recheck_every=7,
                        max_leaves=2_000_000)
    res.executions += st.leaves
    res.states += st.leaves
    res.transitions += st.points + st.leaves
    res.revalidated += st.rechecked
    if state["maxpts"] >= 1:
        res.count("runs_with_tie_break", st.leaves)
    if state["maxpts"] >= 2:
        res.flags.add("two-tie-break-points")
    if big:
        res.flags.add("clique-larger-than-m0")
    if big or state["maxpts"] >= 1:
        res.nontrivial.add((tuple(edges), m0))
    if state["first"]:
        (key, msg), choices, calls, cover = state["first"]
        res.violation(key, f"edges={edges} m0={m0} {'(reused EECC object) ' if reused else ''}tie-breaks={choices}: "
                      f"{msg}", inst_desc, edges=edges, m0=m0, choices=choices, calls=calls, cover=cover,
                      reused=reused, snippet=None if reused else snippet(edges, m0, calls))
    return st.leaves


def snippet(edges, m0, calls):
    return ("import sys; sys.path.insert(0, '/repo')\nCALLS = %r\n" % (calls,) + engine.STANDALONE_STUB +
            "from gcmpy.covers.eecc import EECC\n"
            "g = EECC(); g.add_edges_from(%r); g.set_max_clique_size(%d)\n"
            "cover = g.get_EECC(); print(cover)\n"
            "import itertools, collections\n"
            "cnt = collections.Counter(frozenset(p) for c in cover for p in itertools.combinations(c, 2))\n"
            "assert set(cnt) == {frozenset(e) for e in %r} and max(cnt.values()) == 1, cnt\n" % (edges, m0, edges))


def run_instance(inst, tier):
    res = Result()
    if inst["kind"] == "masks":
        n = inst["n"]
        prs = enumr.pairs(n)
        graphs = [enumr.mask_edges(n, m, prs) for m in inst["masks"]]
    else:
        graphs = [[tuple(e) for e in inst["edges"]]]
    lab = inst.get("labels")
    for edges in graphs:
        if lab:
            edges = enumr.fresh_edges([(lab[a], lab[b]) for a, b in edges])
        for m0 in inst["m0s"]:
            leaves = check_graph(res, edges, m0, {"edges": edges, "m0": m0})
            if inst.get("reused"):
                check_graph(res, edges, m0, {"edges": edges, "m0": m0}, reused=True)
                res.flags.add("reused-object")
            if leaves > 1 and len(res.samples) < 2:
                res.samples.append({"edges": edges, "m0": m0, "tie_break_sequences_explored": leaves})
    return res


def finalize(agg, tier):
    if agg.violations:
        return []
    out = []
    for f in ("two-tie-break-points", "clique-larger-than-m0"):
        if f not in agg.flags:
            out.append(f"vacuous exploration: no case with {f}")
    return out


def replay(v):
    edges = [tuple(e) for e in v["edges"]]
    m0 = v["m0"]
    leaf = engine.execute_plain(run_eecc(edges, m0, v.get("reused", False)), v["choices"], max_points=len(edges) + 1)
    print("edges:", edges, "m0:", m0, "tie-breaks:", v["choices"])
    print("cover:", leaf.outcome, "exception:", leaf.exception, "cut:", leaf.cut)
    verts = sorted({x for e in edges for x in e})
    bad = oracle(edges, m0, leaf, [])
    print("oracle:", bad)
    return 1 if bad else 0
