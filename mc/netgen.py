"""Enumerator of clean motif networks: every edge-disjoint placement of clique / cycle motifs on N labelled vertices.

A placement is turned into an annotated network by the *real* converter (LightWeightEdgeList ->
EdgeListToNetwork.convert), i.e. exactly the object a generator + conversion would hand to the tools.
"""
import itertools


def motif_edges(shape, vs):
    """Edges of one motif instance on the ordered vertex tuple vs."""
    if shape == "clique":
        return [tuple(sorted(p)) for p in itertools.combinations(vs, 2)]
    if shape == "cycle":
        n = len(vs)
        return [tuple(sorted((vs[i], vs[(i + 1) % n]))) for i in range(n)]
    if shape == "diamond":   # 4-cycle vs[0..3] plus the chord vs[0]-vs[2]; one topology name for all five edges
        es = [tuple(sorted((vs[i], vs[(i + 1) % 4]))) for i in range(4)]
        return es + [tuple(sorted((vs[0], vs[2])))]
    raise KeyError(shape)


def candidates(N, topologies):
    """topologies: list of (name, size, shape).  Returns list of (k, vertex tuple, edge list), one per distinct
    edge set."""
    out = []
    for k, (name, size, shape) in enumerate(topologies):
        seen = set()
        for sub in itertools.combinations(range(N), size):
            orders = [sub] if shape == "clique" else [(sub[0],) + p for p in itertools.permutations(sub[1:])]
            for vs in orders:
                es = motif_edges(shape, vs)
                key = frozenset(es)
                if key in seen or len(key) != len(es):
                    continue
                seen.add(key)
                out.append((k, tuple(vs), es))
    return out


def placements(N, topologies, max_motifs=None, min_motifs=1):
    """All sets of edge-disjoint motif instances on vertices 0..N-1 (as lists of candidate tuples)."""
    cands = candidates(N, topologies)

    def rec(start, used, chosen):
        if len(chosen) >= min_motifs:
            yield list(chosen)
        if max_motifs is not None and len(chosen) >= max_motifs:
            return
        for i in range(start, len(cands)):
            k, vs, es = cands[i]
            if any(e in used for e in es):
                continue
            chosen.append(cands[i])
            yield from rec(i + 1, used | set(es), chosen)
            chosen.pop()
    yield from rec(0, frozenset(), [])


def describe(N, topologies, placement):
    """Independent description: jds, rows (edge, topology name, motif id)."""
    t = len(topologies)
    jds = [[0] * t for _ in range(N)]
    rows = []
    for mid, (k, vs, es) in enumerate(placement):
        for v in vs:
            jds[v][k] += 1
        for e in es:
            rows.append((e, topologies[k][0], mid))
    return [tuple(r) for r in jds], rows


def build_network(N, topologies, placement, relabel=None):
    """Annotated Network built by the real converter."""
    from gcmpy.network.edge_list import LightWeightEdgeList
    from gcmpy.network.edge_list_to_network import EdgeListToNetwork
    jds, rows = describe(N, topologies, placement)
    el = LightWeightEdgeList()
    el.edge_list = [e for e, _, _ in rows]
    el.topologies = [t for _, t, _ in rows]
    el.motif_id = [m for _, _, m in rows]
    el.joint_degrees = list(jds)
    net = EdgeListToNetwork.convert(el)
    if relabel == "string-labels":
        import networkx as nx
        from gcmpy.network.network import Network
        net2 = Network()
        net2.G = nx.relabel_nodes(net.G, {v: f"v{v}" for v in net.G.nodes()})
        return net2, jds, rows
    if relabel == "large-int-labels":
        # vertex v is called 1000 + v, and every occurrence of a label (node list, each edge end) is a separate int
        # object: equal, not identical, as in any network with more than 257 vertices
        import networkx as nx
        from gcmpy.network.network import Network
        G = net.G
        H = nx.Graph()
        for n in G.nodes():
            m = int(str(1000 + n))
            H.add_node(m)
            H.nodes[m].update(G.nodes[n])
        for u, v, d in G.edges(data=True):
            a, b = int(str(1000 + u)), int(str(1000 + v))
            H.add_edge(a, b)
            H.edges[a, b].update(d)
        net2 = Network()
        net2.G = H
        return net2, jds, rows
    if relabel == "list-annotations":
        # the joint degree of every vertex stored as a list (as valid an annotation as a tuple)
        from gcmpy.names.network_names import NetworkNames as NN
        for n in net.G.nodes():
            net.G.nodes[n][NN.JOINT_DEGREE] = list(net.G.nodes[n][NN.JOINT_DEGREE])
        return net, jds, rows
    if relabel == "reversed-insertion":
        # the same annotated network with vertices and edges inserted in the opposite order and every edge given
        # in the opposite orientation (a different, equally valid, networkx representation)
        import networkx as nx
        from gcmpy.network.network import Network
        G = net.G
        H = nx.Graph()
        for n in reversed(list(G.nodes())):
            H.add_node(n)
            H.nodes[n].update(G.nodes[n])      # attribute keys are enum members, not strings
        for u, v, d in reversed(list(G.edges(data=True))):
            H.add_edge(v, u)
            H.edges[v, u].update(d)
        net2 = Network()
        net2.G = H
        return net2, jds, rows
    return net, jds, rows


TOPOLOGY_SETS = {
    "c2": [("2-clique", 2, "clique")],
    "c3": [("3-clique", 3, "clique")],
    "c2+c3": [("2-clique", 2, "clique"), ("3-clique", 3, "clique")],
    "blue+red": [("2-clique-blue", 2, "clique"), ("2-clique-red", 2, "clique")],
    "blue+c3+red": [("2-clique-blue", 2, "clique"), ("3-clique", 3, "clique"), ("2-clique-red", 2, "clique")],
    "c3+c2": [("3-clique", 3, "clique"), ("2-clique", 2, "clique")],
    "c2+cyc4": [("2-clique", 2, "clique"), ("4-cycle", 4, "cycle")],
    "cyc4": [("4-cycle", 4, "cycle")],
    "c2+c4": [("2-clique", 2, "clique"), ("4-clique", 4, "clique")],
    "c2+c5": [("2-clique", 2, "clique"), ("5-clique", 5, "clique")],
    "c2+cyc5": [("2-clique", 2, "clique"), ("5-cycle", 5, "cycle")],
    "c2+dia": [("2-clique", 2, "clique"), ("diamond", 4, "diamond")],
    "c2+c3+red": [("2-clique", 2, "clique"), ("3-clique", 3, "clique"), ("2-clique-red", 2, "clique")],
}
