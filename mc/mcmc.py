"""State-graph machinery for the MCMC rewiring properties C11 / C12.

A *state* is the coarse canonical form of an annotated graph (vertex annotations, set of edges with topology and
motif id).  A *transition* is one execution of the real MarkovChainMonteCarloRewiring.rewire() with
CONVERGENCE_LIMIT = 0 (returns after exactly one accepted swap) from the canonical construction of a state, under
the RNG explorer; all RNG resolutions with at most `d` extra draws beyond the minimal (e0, e1, uniform) are explored.
"""
import itertools

from mc import engine


def NN():
    from gcmpy.names.network_names import NetworkNames
    return NetworkNames


def coarse(G):
    """Canonical (order-insensitive) form of an annotated graph."""
    N_ = NN()
    nodes = tuple(sorted((n, tuple(G.nodes[n][N_.JOINT_DEGREE])) for n in G.nodes()))
    edges = tuple(sorted((min(u, v), max(u, v), d.get(N_.TOPOLOGY), d.get(N_.MOTIF_IDS))
                         for u, v, d in G.edges(data=True)))
    return nodes, edges


def fine(G):
    N_ = NN()
    return (tuple((n, repr(sorted(d.items(), key=repr))) for n, d in G.nodes(data=True)),
            tuple((u, tuple((v, repr(sorted(dd.items(), key=repr))) for v, dd in nbrs.items()))
                  for u, nbrs in G.adjacency()))


class Registry:
    def __init__(self):
        self.copies = []


def make_tracked(registry):
    import networkx as nx

    class TrackedGraph(nx.Graph):
        def copy(self, as_view=False):
            c = super().copy(as_view=as_view)
            registry.copies.append(c)
            return c
    return TrackedGraph


ANNOTATION_TYPE = [tuple]   # type used for the joint_degree annotation of the networks handed to rewire()
EDGE_ORDER = [None]         # None = sorted (canonical); "reversed"; or an int seed for a shuffled insertion order


REUSED_OBJECT = [False]     # True: the rewiring object first served another network (see run_rewire)


def relabel_state(state, f):
    """The same network with vertex v renamed f(v); f is called once per OCCURRENCE, so labels that are equal need
    not be identical objects (as for any int outside CPython's small-int cache, e.g. vertex 1000)."""
    nodes, edges = state
    new_nodes = tuple(sorted((f(n), jd) for n, jd in nodes))
    new_edges = []
    for u, v, top, mid in edges:
        a, b = f(u), f(v)
        new_edges.append((a, b, top, mid) if a <= b else (b, a, top, mid))
    return new_nodes, tuple(sorted(new_edges))


def mirrored(state):
    """Same vertex labels, but the network is attached to them in reverse order (label i gets the role of the
    i-th label from the end): a different annotated network over the same vertex set."""
    labels = [n for n, _ in state[0]]
    m = dict(zip(labels, reversed(labels)))
    return relabel_state(state, lambda v: m[v])


def build_state_graph(state, cls):
    """Canonical construction of a state: sorted nodes, sorted edges."""
    N_ = NN()
    nodes, edges = state
    G = cls()
    for n, jd in nodes:
        G.add_node(n, **{})
        G.nodes[n][N_.JOINT_DEGREE] = ANNOTATION_TYPE[0](jd)
    edges = list(edges)
    if EDGE_ORDER[0] == "reversed":
        edges.reverse()
    elif isinstance(EDGE_ORDER[0], int):
        # a private deterministic permutation (LCG): an input variation, not part of the explored nondeterminism
        x = [EDGE_ORDER[0] * 2654435761 % (1 << 32) or 1]

        def nxt(n):
            x[0] = (x[0] * 1103515245 + 12345) % (1 << 31)
            return (x[0] >> 8) % n
        for i in range(len(edges) - 1, 0, -1):
            j = nxt(i + 1)
            edges[i], edges[j] = edges[j], edges[i]
        edges = [(v, u, t, m) if nxt(2) else (u, v, t, m) for u, v, t, m in edges]
    for u, v, top, mid in edges:
        G.add_edge(u, v)
        G.edges[u, v][N_.TOPOLOGY] = top
        G.edges[u, v][N_.MOTIF_IDS] = mid
    return G


def excess_keys(state, names):
    nodes, _ = state
    out = {}
    for i, n in enumerate(names):
        out[n] = sorted({tuple(x - (1 if j == i else 0) for j, x in enumerate(jd)) for _, jd in nodes if jd[i] > 0})
    return out


def mixing(state, names):
    """name -> {a+b: fraction of edge ends}, computed from scratch (floats)."""
    nodes, edges = state
    jd = dict(nodes)
    out = {n: {} for n in names}
    cnt = {n: 0 for n in names}
    for u, v, top, mid in edges:
        cnt[top] += 1
    for u, v, top, mid in edges:
        i = names.index(top)
        a = tuple(x - (1 if j == i else 0) for j, x in enumerate(jd[u]))
        b = tuple(x - (1 if j == i else 0) for j, x in enumerate(jd[v]))
        w = 0.5 / cnt[top]
        out[top][a + b] = out[top].get(a + b, 0.0) + w
        out[top][b + a] = out[top].get(b + a, 0.0) + w
    return out


def make_target(state, names, kind="uniform", removed=(), zeroed=()):
    """Target matrices: a dict name -> {a+b: weight}; `removed`/`zeroed` are sets of (name, frozenset{a,b})."""
    keys = excess_keys(state, names)
    if kind == "uniform-all-keys":
        # every topology's matrix carries every pair of excess tuples that occurs for ANY topology (super-full
        # support: entries that no edge of that topology can realise are harmless for a correct implementation)
        union = sorted({k for n in names for k in keys[n]})
        keys = {n: union for n in names}
        kind = "uniform"
    out = {}
    for n in names:
        ks = keys[n]
        m = {}
        for ia, a in enumerate(ks):
            for ib, b in enumerate(ks):
                pair = (n, frozenset((a, b)))
                if pair in removed:
                    continue
                if kind == "uniform":
                    w = 1.0
                elif kind == "assortative":
                    w = 4.0 if a == b else 1.0
                elif kind == "disassortative":
                    w = 1.0 if a == b else 4.0
                elif kind == "strong-assortative":
                    w = 100.0 if a == b else 1.0
                elif kind == "strong-disassortative":
                    w = 1.0 if a == b else 100.0
                else:  # graded, symmetric, depends on the pair
                    w = 1.0 + (ia + 1) * (ib + 1) % 5
                m[a + b] = 0.0 if pair in zeroed else w
        tot = sum(m.values()) or 1.0
        out[n] = {k: v / tot for k, v in m.items()}
    return out


EJKS_DICT_ORDER = ["names"]   # "names" or "reversed": insertion order of the per-topology matrices in the EJKS dict


def target_object(target, names):
    from gcmpy.tools.joint_excess_joint_degree_matrices import JointExcessJointDegreeMatrices
    from gcmpy.names.tools_names import ToolsNames as TN
    order = list(names) if EJKS_DICT_ORDER[0] == "names" else list(reversed(names))
    return JointExcessJointDegreeMatrices({TN.EJKS: {n: dict(target[n]) for n in order}, TN.EDGE_NAMES: list(names)})


def motif_shapes(state):
    """motif id -> canonical description used for the isomorphism invariant: (n_vertices, sorted degree/topology
    profile, the labelled edge multiset as a small graph)."""
    import networkx as nx
    _, edges = state
    groups = {}
    for u, v, top, mid in edges:
        groups.setdefault(mid, []).append((u, v, top))
    out = {}
    for mid, es in groups.items():
        g = nx.Graph()
        for u, v, top in es:
            g.add_edge(u, v, t=top)
        out[mid] = g
    return out


def same_shape(g0, g1):
    import networkx as nx
    if g0.number_of_nodes() != g1.number_of_nodes() or g0.number_of_edges() != g1.number_of_edges():
        return False
    return nx.is_isomorphic(g0, g1, edge_match=lambda a, b: a["t"] == b["t"])


def check_state_invariants(initial, shapes0, post, names, target, pre=None):
    """C11 invariants of `post` relative to the initial network (and C12's hard rule relative to `pre`).

    Returns list of (property, key, message)."""
    out = []
    n0, e0 = initial
    n1, e1 = post
    if n1 != n0:
        out.append(("C11", "C11:vertices-or-annotations-changed", f"vertex set / annotations changed: {n1} vs {n0}"))
        return out
    if len(e1) != len(e0):
        out.append(("C11", "C11:edge-count", f"{len(e1)} edges, initially {len(e0)}"))
    loops = [(u, v) for u, v, _, _ in e1 if u == v]
    if loops:
        out.append(("C11", "C11:self-loop", f"self-loops {loops}"))

    def topdeg(edges):
        d = {}
        for u, v, top, mid in edges:
            d[(u, top)] = d.get((u, top), 0) + 1
            d[(v, top)] = d.get((v, top), 0) + 1
        return d
    if topdeg(e1) != topdeg(e0):
        a, b = topdeg(e0), topdeg(e1)
        diff = sorted(k for k in set(a) | set(b) if a.get(k) != b.get(k))[:3]
        out.append(("C11", "C11:per-topology-degree", f"per-vertex per-topology edge counts changed at {diff}"))
    shapes1 = motif_shapes(post)
    if set(shapes1) != set(shapes0):
        out.append(("C11", "C11:motif-ids", f"motif ids {sorted(shapes1, key=repr)} vs initially "
                    f"{sorted(shapes0, key=repr)}"))
    else:
        for mid in shapes0:
            if not same_shape(shapes0[mid], shapes1[mid]):
                out.append(("C11", "C11:motif-shape",
                            f"edges with motif id {mid} are {sorted(shapes1[mid].edges(data='t'))}: no longer a motif "
                            f"of the shape {sorted(shapes0[mid].edges(data='t'))} on "
                            f"{shapes0[mid].number_of_nodes()} distinct vertices"))
                break
    if pre is not None:
        jd = dict(n1)
        old = {(u, v) for u, v, _, _ in pre[1]}
        for u, v, top, mid in e1:
            if (u, v) in old:
                continue
            i = names.index(top)
            a = tuple(x - (1 if j == i else 0) for j, x in enumerate(jd[u]))
            b = tuple(x - (1 if j == i else 0) for j, x in enumerate(jd[v]))
            w1 = target[top].get(a + b, 0.0)
            w2 = target[top].get(b + a, 0.0)
            if not (w1 > 0 and w2 > 0):
                out.append(("C12", "C12:forbidden-pairing-created",
                            f"new {top} edge ({u},{v}) joins excess classes {a} and {b}, whose target weight is "
                            f"{w1 if (a + b) in target[top] else 'absent'}"))
                break
    return out


def uncross(pre, post):
    """If the edges created by the swap carry exactly two motif ids, exchange them on the created edges.

    Used only to *classify* a motif-shape violation as the known 'ids of the two swapped corners are crossed'
    defect: the classification holds iff the repaired state satisfies every invariant."""
    old = {(u, v) for u, v, _, _ in pre[1]}
    created = [e for e in post[1] if (e[0], e[1]) not in old]
    ids = sorted({e[3] for e in created}, key=repr)
    if len(ids) != 2:
        return None
    a, b = ids
    edges = []
    for e in post[1]:
        if (e[0], e[1]) not in old:
            edges.append((e[0], e[1], e[2], b if e[3] == a else a))
        else:
            edges.append(e)
    return post[0], tuple(sorted(edges))


KNOWN_CROSSED = "C11:motif-ids-crossed-between-swapped-corners"


class StepResult:
    def __init__(self):
        self.successors = {}   # coarse state -> (choices, calls)
        self.known = 0         # occurrences of the known id-crossing defect (successor repaired)
        self.problems = []     # (property, key, message, choices)
        self.calls = {}        # tuple(choices) -> resolved random calls (for standalone replay)
        self.leaves = 0
        self.cut = 0
        self.returned = 0
        self.points = 0
        self.rechecked = 0
        self.thresholds = []   # (post state, threshold) diagnostics
        self.accept_mass = {}  # coarse state -> exact probability (only meaningful when tracked)


def run_rewire(state, names, target, conv_limit, search_limit, registry, omit_limits=False, hook=None):
    """Build everything fresh and call the real rewire(); returns (input network, returned graph)."""
    from gcmpy.network.network import Network
    from gcmpy.tools.markov_chain_monte_carlo_rewiring import MarkovChainMonteCarloRewiring
    from gcmpy.names.tools_names import ToolsNames as TN
    cls = make_tracked(registry)
    net = Network()
    net.G = build_state_graph(state, cls)
    params = {TN.NETWORK: net, TN.EJKS: target_object(target, names)}
    if conv_limit is not None:
        params[TN.CONVERGENCE_LIMIT] = conv_limit
    if search_limit is not None:
        params[TN.SEARCH_LIMIT] = search_limit
    if REUSED_OBJECT[0]:
        # history: one rewiring object first rewires ANOTHER annotated network over the same vertex labels (three
        # single-swap calls under one fixed schedule), is then pointed at this network and target through its public
        # setters, and only the second rewire() is explored
        other = mirrored(state)
        net0 = Network()
        net0.G = build_state_graph(other, cls)
        params0 = dict(params)
        params0[TN.NETWORK] = net0
        params0[TN.EJKS] = target_object(make_target(other, names, "uniform"), names)
        params0[TN.CONVERGENCE_LIMIT] = 0
        mc = MarkovChainMonteCarloRewiring(params0)
        with engine.scripted_prefix():
            for _ in range(3):   # rewire() leaves its input alone, so each call is one accepted swap of `other`
                mc.rewire()
        del registry.copies[:]
        mc.network = net
        mc.ejks = params[TN.EJKS]
        if conv_limit is not None:
            mc.convergence_limit = conv_limit
        out = mc.rewire()
        return net, out
    mc = MarkovChainMonteCarloRewiring(params)
    out = mc.rewire()
    return net, out


def explore_step(state, initial, shapes0, names, target, d, search_limit=25, conv_limit=0, track_prob=False,
                 recheck_every=7, max_leaves=400_000):
    """All RNG resolutions of rewire() (conv_limit+1 accepted swaps) with at most d extra draws."""
    res = StepResult()
    registry = Registry()
    holder = {}
    max_draws = 2 * (conv_limit + 1) + d
    draws = [0]

    def observer(kind, seq):
        # deviation bound: at most d draws beyond the minimal (e0, e1) per accepted swap
        draws[0] += 1
        if draws[0] > max_draws:
            engine.cut_now("deviation bound")
        # DrawSet contents must mirror the working graph's edge set at every draw (only observable when the draw
        # is a choice over the member list)
        if kind == "choice" and registry.copies:
            G = registry.copies[-1]
            want = {tuple(sorted(e)) for e in G.edges()}
            if set(seq) != want or len(seq) != len(want):
                holder.setdefault("drawset", (sorted(seq), sorted(want)))

    def body():
        registry.copies.clear()
        holder.clear()
        draws[0] = 0
        net, out = run_rewire(state, names, target, conv_limit, search_limit, registry)
        holder["net"] = net
        return out

    def on_leaf(leaf):
        res.leaves += 1
        choices = leaf.choices
        n_before = len(res.problems)
        try:
            _on_leaf(leaf, choices)
        finally:
            if len(res.problems) > n_before and len(res.calls) < 20:
                res.calls[tuple(choices)] = leaf.run.resolved_calls()

    def _on_leaf(leaf, choices):
        if "drawset" in holder:
            got, want = holder["drawset"]
            res.problems.append(("C11", "C11:drawset-out-of-sync", f"drawable edge set {got} != working graph edges "
                                 f"{want}", choices))
        if leaf.cut:
            res.cut += 1
            # a failed/rejected proposal must not leak: working graph == the state we started from
            if registry.copies:
                G = registry.copies[-1]
                try:
                    now = coarse(G)
                except Exception as e:
                    now = repr(e)
                if now != state and conv_limit == 0:
                    res.problems.append(("C11", "C11:rejected-proposal-leaks",
                                         f"after only failed/rejected proposals the working graph is {now}", choices))
            return
        if leaf.exception is not None:
            res.problems.append(("C11", "C11:exception", f"rewire raised {leaf.exception!r}", choices))
            return
        res.returned += 1
        G = leaf.outcome
        net = holder.get("net")
        if net is not None:
            try:
                if coarse(net.G) != state:
                    res.problems.append(("C11", "C11:input-network-modified", "the Network passed in was modified",
                                         choices))
                if G is net.G:
                    res.problems.append(("C11", "C11:input-network-modified", "rewire returned the input graph object",
                                         choices))
            except Exception as e:
                res.problems.append(("C11", "C11:input-network-modified", f"input network unreadable: {e!r}", choices))
        try:
            post = coarse(G)
        except Exception as e:
            res.problems.append(("C11", "C11:returned-graph-malformed", f"{e!r}", choices))
            return
        probs = check_state_invariants(initial, shapes0, post, names, target,
                                       pre=state if conv_limit == 0 else None)
        shape = [p for p in probs if p[1] in ("C11:motif-shape", "C11:motif-ids")]
        if shape and conv_limit == 0:
            repaired = uncross(state, post)
            if repaired is not None and not check_state_invariants(initial, shapes0, repaired, names, target,
                                                                    pre=state):
                # exactly the known defect and nothing else: report it under its own key and continue the
                # exploration from the repaired successor so the rest of the state space is still covered
                res.known += 1
                res.problems.append(("C11", KNOWN_CROSSED, shape[0][2] + " (exchanging the two motif ids on the "
                                     "created edges repairs every invariant)", choices))
                probs = [p for p in probs if p not in shape]
                post = repaired
        for prop, key, msg in probs:
            res.problems.append((prop, key, msg, choices))
        if post == state and conv_limit == 0:
            res.problems.append(("C11", "C11:accepted-swap-changes-nothing", "an accepted swap returned the same graph",
                                 choices))
        if post not in res.successors:
            res.successors[post] = (choices, leaf.run.resolved_calls())
        if track_prob:
            res.accept_mass[post] = res.accept_mass.get(post, 0) + leaf.prob
        for u in leaf.run.uniforms:
            for t in u.thresholds:
                res.thresholds.append((post, float(t)))

    st = engine.explore(body, on_leaf, max_points=4 * max_draws + 8, track_prob=track_prob, recheck_every=recheck_every,
                        sig=lambda g: repr(coarse(g)) if g is not None else "None", max_leaves=max_leaves,
                        observer=observer)
    res.points = st.points
    res.rechecked = st.rechecked
    return res


def standalone_snippet(state, names, target, conv_limit, search_limit, calls):
    """Plain program replaying one execution of rewire() with a list-driven random module (no explorer)."""
    return ("# run with /venv/bin/python from /verif\nimport sys; sys.path[:0] = ['/repo', '/verif']\n"
            "CALLS = %r\n" % (calls,) + engine.STANDALONE_STUB +
            "from mc import mcmc\nstate = %r\nnames = %r\ntarget = %r\n" % (state, names, target) +
            "net, out = mcmc.run_rewire(state, names, target, %r, %r, mcmc.Registry())\n" % (conv_limit, search_limit) +
            "post = mcmc.coarse(out)\nprint('edges after:', post[1])\n"
            "for p in mcmc.check_state_invariants(state, mcmc.motif_shapes(state), post, names, target, pre=state):\n"
            "    print('VIOLATED', p)\n")


def closure(initial, names, target, d, search_limit=25, cap=20000, on_step=None):
    """BFS to fixpoint over accepted swaps.  Returns (states dict state->history, edges list, problems, stats)."""
    shapes0 = motif_shapes(initial)
    seen = {initial: []}
    order = [initial]
    problems = []
    stats = {"leaves": 0, "cut": 0, "points": 0, "rechecked": 0, "transitions": 0, "capped": False,
             "dead_states": 0}
    graph = {}
    i = 0
    while i < len(order):
        s = order[i]
        i += 1
        r = explore_step(s, initial, shapes0, names, target, d, search_limit)
        stats["leaves"] += r.leaves
        stats["cut"] += r.cut
        stats["points"] += r.points
        stats["rechecked"] += r.rechecked
        stats["transitions"] += len(r.successors)
        if not r.successors:
            stats["dead_states"] += 1
        # diagnostic only (the property does not prescribe the acceptance formula): thresholds the code compared its
        # uniform against vs the documented ratio prod(target[new pairings]) / prod(target[removed pairings])
        for post, thr in r.thresholds:
            jd = dict(s[0])
            old_e = {(u, v): top for u, v, top, mid in s[1]}
            new_e = {(u, v): top for u, v, top, mid in post[1]}

            def w(u, v, top):
                i = names.index(top)
                a = tuple(x - (1 if j == i else 0) for j, x in enumerate(jd[u]))
                b = tuple(x - (1 if j == i else 0) for j, x in enumerate(jd[v]))
                return target[top].get(a + b, 0.0)
            num = den = 1.0
            for e, top in new_e.items():
                if e not in old_e:
                    num *= w(e[0], e[1], top)
            for e, top in old_e.items():
                if e not in new_e:
                    den *= w(e[0], e[1], top)
            stats["thresholds_seen"] = stats.get("thresholds_seen", 0) + 1
            if den > 0 and abs(min(1.0, thr) - min(1.0, num / den)) > 1e-9:
                stats["thresholds_off"] = stats.get("thresholds_off", 0) + 1
        graph[s] = list(r.successors)
        for p in r.problems:
            problems.append(p + (seen[s],))
        if any(p[1] != KNOWN_CROSSED for p in r.problems):
            continue  # do not expand beyond a state with an unclassified violation
        for t, (choices, calls) in r.successors.items():
            if t not in seen:
                if len(seen) >= cap:
                    stats["capped"] = True
                    continue
                seen[t] = seen[s] + [choices]
                order.append(t)
        if on_step:
            on_step(s, r)
    return seen, graph, problems, stats


def l1_distance(state, names, target):
    m = mixing(state, names)
    tot = 0.0
    for n in names:
        keys = set(m[n]) | set(target[n])
        tot += sum(abs(m[n].get(k, 0.0) - target[n].get(k, 0.0)) for k in keys)
    return tot
