"""Shared driver for the generator properties C01-C04: motif catalogue, input boxes, exploration."""
import copy
import itertools
import math
from fractions import Fraction

from mc import engine, enumr


# ------------------------------------------------------------------ motif catalogue
def path3(vs):
    return [(vs[0], vs[1]), (vs[1], vs[2])]


def single_edge_list(vs):
    return [(vs[0], vs[1])]


def bare_edge(vs):
    return (vs[0], vs[1])


def tri_tuple(vs):
    return (vs[0], vs[1]), (vs[0], vs[2]), (vs[1], vs[2])


def diamond5(vs):
    return ((vs[0], vs[1]), (vs[1], vs[2]), (vs[2], vs[3]), (vs[3], vs[1]), (vs[0], vs[2]))


def lone(vs):
    return []


def bare_edge_reversed(vs):
    # a single bare edge whose endpoints are not in the order the vertices were handed over
    return (vs[1], vs[0])


def path3_lists(vs):
    # the same two edges as path3, written as lists
    return [[vs[0], vs[1]], [vs[1], vs[2]]]


def star3(vs):
    # centre = first orbit (1 vertex), leaves = second orbit (2 vertices)
    return [(vs[0], vs[1]), (vs[0], vs[2])]


def kite4(vs):
    # three orbits: the two "wing" vertices (first orbit, 2 vertices), the "hub" (second) and the "tail" (third)
    return [(vs[0], vs[1]), (vs[0], vs[2]), (vs[1], vs[2]), (vs[2], vs[3])]


def fast_configs(tier):
    from gcmpy.motif_generators.clique_motif import clique_motif
    from gcmpy.motif_generators.cycle_motif import cycle_motif
    from gcmpy.motif_generators.diamond_motif import diamond_motif
    cfgs = [
        ("clique2", [2], [clique_motif], ["2-clique"]),
        ("clique3", [3], [clique_motif], ["3-clique"]),
        ("clique2+clique3", [2, 3], [clique_motif, clique_motif], ["2-clique", "3-clique"]),
        ("cycle3", [3], [cycle_motif], ["3-cycle"]),
        ("cycle4", [4], [cycle_motif], ["4-cycle"]),
        ("diamond4", [4], [diamond_motif], ["diamond"]),
        ("clique2+cycle4", [2, 4], [clique_motif, cycle_motif], ["2-clique", "4-cycle"]),
        ("path3-callback", [3], [path3], ["path"]),
        ("clique3+clique2", [3, 2], [clique_motif, clique_motif], ["3-clique", "2-clique"]),
        # a topology of motif size 1 (its callback returns no edges but must still be applied once per stub)
        ("clique2+lone1", [2, 1], [clique_motif, lone], ["2-clique", "lone"]),
        # a topology name is an arbitrary label: here a tuple, not a str
        ("clique3-tuple-name", [3], [clique_motif], [("3-clique", 3)]),
        # two topologies that carry the same label but have motifs with different numbers of edges
        ("clique2+clique3-same-name", [2, 3], [clique_motif, clique_motif], ["clique", "clique"]),
    ]
    if tier == "thorough":
        cfgs += [
            ("blue+tri+red", [2, 3, 2], [clique_motif, clique_motif, clique_motif],
             ["2-clique-blue", "3-clique", "2-clique-red"]),
            ("clique4", [4], [clique_motif], ["4-clique"]),
            ("path3+diamond4", [3, 4], [path3, diamond_motif], ["path", "diamond"]),
        ]
    return cfgs


def custom_configs(tier):
    """(name, orbit sizes, build functions, name callbacks, motif_indices)"""
    cfgs = [
        ("bare-edge", [2], [bare_edge], [lambda: "2-clique"], [[0]]),
        ("one-edge-list", [2], [single_edge_list], [lambda: ["e"]], [[0]]),
        ("bare-edge-tuple-name", [2], [bare_edge], [lambda: ("2-clique",)], [[0]]),
        ("bare-edge-reversed", [2], [bare_edge_reversed], [lambda: "2-clique"], [[0]]),
        ("two-edge-path", [3], [path3], [lambda: ("p01", "p12")], [[0]]),
        ("two-edge-path-as-lists", [3], [path3_lists], [lambda: ["p01", "p12"]], [[0]]),
        ("triangle", [3], [tri_tuple], [lambda: ("3-clique", "3-clique", "3-clique")], [[0]]),
        ("bare-edge+triangle", [2, 3], [bare_edge, tri_tuple],
         [lambda: "2-clique", lambda: ("3-clique",) * 3], [[0], [1]]),
        ("diamond-2-orbits", [2, 2], [diamond5],
         [lambda: ("outer", "outer", "outer", "outer", "inner")], [[0, 1]]),
        ("star-2-orbits", [1, 2], [star3], [lambda: ("s01", "s02")], [[0, 1]]),
        # three orbits, two of them single-vertex orbits that are not the leading one
        ("kite-3-orbits", [2, 1, 1], [kite4], [lambda: ("w", "wh", "wh", "ht")], [[0, 1, 2]]),
        ("triangle+two-edge-path", [3, 3], [tri_tuple, path3],
         [lambda: ("3-clique",) * 3, lambda: ("p01", "p12")], [[0], [1]]),
        # motif order differs from column order (motif 0 uses column 1 and vice versa)
        ("triangle@col1+bare-edge@col0", [2, 3], [tri_tuple, bare_edge],
         [lambda: ("3-clique",) * 3, lambda: "2-clique"], [[1], [0]]),
        # orbits of one motif are not adjacent columns
        ("diamond@cols0,2+bare-edge@col1", [2, 2, 2], [diamond5, bare_edge],
         [lambda: ("outer", "outer", "outer", "outer", "inner"), lambda: "2-clique"], [[0, 2], [1]]),
    ]
    if tier == "thorough":
        cfgs += [
            ("bare-edge+diamond-2-orbits", [2, 2, 2], [bare_edge, diamond5],
             [lambda: "2-clique", lambda: ("outer", "outer", "outer", "outer", "inner")], [[0], [1, 2]]),
            ("path+lone-orbit", [3, 1], [path3, lone], [lambda: ("p01", "p12"), lambda: ()], [[0], [1]]),
        ]
    return cfgs


# ------------------------------------------------------------------ boxes
BOX = {
    # per number of topologies/orbit columns t: (max N, max entry)
    # "extra" boxes add few vertices with higher degrees (more motif instances than vertices)
    "quick": {"shape": {1: (4, 2), 2: (4, 2), 3: (4, 1)}, "extra": {1: (3, 4), 2: (2, 3)}, "leaf_cap": 500},
    "thorough": {"shape": {1: (5, 3), 2: (4, 2), 3: (4, 1)}, "extra": {1: (3, 5), 2: (3, 4), 3: (3, 2)},
                 "leaf_cap": 5000},
}


def n_arrangements(jds, t):
    total = 1
    for k in range(t):
        col = [r[k] for r in jds]
        n = sum(col)
        a = math.factorial(n)
        for d in col:
            a //= math.factorial(d)
        total *= a
    return total


def valid_for_custom(jds, sizes, indices):
    """Handshake for multi-orbit motifs: every orbit column of a motif yields the same motif count."""
    for orbit_cols in indices:
        counts = set()
        for k in orbit_cols:
            s = sum(r[k] for r in jds)
            if s % sizes[k]:
                return False
            counts.add(s // sizes[k])
        if len(counts) != 1:
            return False
    return True


def jds_box(tier, t, sizes, indices=None):
    box = BOX[tier]
    seen = set()
    shapes = [box["shape"].get(t, (3, 1))]
    if t in box.get("extra", {}):
        shapes.append(box["extra"][t])
    for maxN, md in shapes:
        for N in range(1, maxN + 1):
            for jds in enumr.joint_degree_sequences(N, t, md, sizes):
                if indices is not None and not valid_for_custom(jds, sizes, indices):
                    continue
                key = tuple(jds)
                if key in seen:
                    continue
                seen.add(key)
                yield jds


def all_instances(tier, kinds=("fast", "custom")):
    """Yield dicts {kind, cfg (index), jds}."""
    if "fast" in kinds:
        for ci, (name, sizes, builds, names) in enumerate(fast_configs(tier)):
            for jds in jds_box(tier, len(sizes), sizes):
                yield {"kind": "fast", "cfg": ci, "cfg_name": name, "jds": jds}
    if "custom" in kinds:
        for ci, (name, sizes, builds, names, indices) in enumerate(custom_configs(tier)):
            for jds in jds_box(tier, len(sizes), sizes, indices):
                yield {"kind": "custom", "cfg": ci, "cfg_name": name, "jds": jds}


# ------------------------------------------------------------------ running the real generators
class Recorder:
    def __init__(self, fn, log, k):
        self.fn, self.log, self.k = fn, log, k

    def __call__(self, vertices):
        args = list(vertices)
        ret = self.fn(vertices)
        self.log.append((self.k, args, ret))
        return ret


def make_body(inst, tier, path):
    """Return (body, meta).  body() runs one generation and returns an observation dict.

    path in: fast-direct, fast-factory, network-direct, network-factory, custom-direct, custom-factory
    """
    from gcmpy.names.gcm_algorithm_names import GCMAlgorithmNames as GN
    from gcmpy.gcm_algorithm.gcm_algorithm_types import GCMAlgorithmTypes as GT
    from gcmpy.gcm_algorithm.gcm_algorithm_fast import GCMAlgorithmFast
    from gcmpy.gcm_algorithm.gcm_algorithm_network import GCMAlgorithmNetwork
    from gcmpy.gcm_algorithm.gcm_algorithm_custom_motifs import GCMAlgorithmCustomMotifs
    from gcmpy.gcm_algorithm.gcm_algorithm_main import GCMAlgorithmMain
    from gcmpy.names.network_names import NetworkNames as NN

    parts = path.split("-")
    kind, how = parts[0], parts[1]
    twice = len(parts) > 2 and parts[2] == "twice"   # observe the SECOND call on one generator object
    # observe the second call after the caller's list object was edited in place: "grown" = the first call saw
    # N+1 all-zero rows (no motifs), "shrunk" = the first call saw the same rows followed by two all-zero rows
    regrow = parts[2] if len(parts) > 2 and parts[2] in ("grown", "shrunk") else None
    jds0 = [tuple(r) for r in inst["jds"]]
    if kind in ("fast", "network"):
        name, sizes, builds, names = fast_configs(tier)[inst["cfg"]]
        indices = [[k] for k in range(len(sizes))]
        name_of = [lambda n=n: n for n in names]
    else:
        name, sizes, builds, name_of, indices = custom_configs(tier)[inst["cfg"]]
        names = None
    meta = {"sizes": sizes, "indices": indices, "names": names, "name_of": name_of, "builds": builds,
            "cfg_name": name, "jds": jds0, "kind": kind}

    def body():
        log = []
        jds = [tuple(r) for r in jds0]
        params = {GN.MOTIF_SIZES: list(sizes),
                  GN.BUILD_FUNCTIONS: [Recorder(f, log, j) for j, f in enumerate(builds)]}
        if kind == "custom":
            params[GN.EDGE_NAMES] = list(name_of)
            params[GN.MOTIF_INDICES] = [list(ix) for ix in indices]
            cls, typ = GCMAlgorithmCustomMotifs, GT.MOTIFS
        else:
            params[GN.EDGE_NAMES] = list(names)
            cls, typ = (GCMAlgorithmFast, GT.FAST) if kind == "fast" else (GCMAlgorithmNetwork, GT.NETWORK)
        if how == "direct":
            alg = cls(params)
        else:
            params[GN.GCM_TYPE] = typ
            alg = GCMAlgorithmMain.load_gcm_algorithm(params)
            if type(alg) is not cls:
                return {"wrong_class": type(alg).__name__}
        if regrow:
            width = len(sizes)
            real = list(jds)
            jds[:] = [(0,) * width] * (len(real) + 1) if regrow == "grown" else real + [(0,) * width] * 2
            alg.random_clustered_graph(jds)
            del log[:]
            jds[:] = real
        out = alg.random_clustered_graph(jds)
        if twice:
            del log[:]
            out = alg.random_clustered_graph(jds)
        obs = {"log": log, "jds_after": list(jds)}
        if kind == "network":
            G = out.G
            obs["nodes"] = sorted(G.nodes())
            obs["node_jd"] = {n: G.nodes[n].get(NN.JOINT_DEGREE) for n in G.nodes()}
            obs["edges"] = sorted(tuple(sorted(e)) for e in G.edges())
            obs["edge_data"] = {tuple(sorted(e)): (G.edges[e].get(NN.TOPOLOGY), G.edges[e].get(NN.MOTIF_IDS))
                                for e in G.edges()}
        else:
            obs["edge_list"] = list(out.edge_list)
            obs["topologies"] = list(out.topologies)
            obs["motif_id"] = list(out.motif_id)
            obs["joint_degrees"] = out.joint_degrees
            obs["jd_identity"] = out.joint_degrees is jds
            obs["raw"] = out
        return obs
    return body, meta


def sig(obs):
    if obs is None:
        return "None"
    return repr({k: v for k, v in obs.items() if k not in ("jd_identity", "raw")})


def expected_counts(meta):
    """motif j -> expected number of build calls, from the property's formula."""
    jds, sizes = meta["jds"], meta["sizes"]
    out = []
    for orbit_cols in meta["indices"]:
        k = orbit_cols[0]
        out.append(sum(r[k] for r in jds) // sizes[k])
    return out


def check_c01(obs, meta, leaf):
    """Oracle for C01 on one leaf. Returns (key, msg) or None."""
    if leaf.exception is not None:
        return ("C01:exception", f"generator raised {leaf.exception!r}")
    if "wrong_class" in obs:
        return ("C01:factory-dispatch", f"factory returned {obs['wrong_class']}")
    jds, sizes, indices = meta["jds"], meta["sizes"], meta["indices"]
    N = len(jds)
    log = obs["log"]
    exp = expected_counts(meta)
    for j, orbit_cols in enumerate(indices):
        calls = [c for c in log if c[0] == j]
        if len(calls) != exp[j]:
            return ("C01:motif-count", f"topology {j}: build callback called {len(calls)} times, expected {exp[j]}")
        width = sum(sizes[k] for k in orbit_cols)
        slots = {k: [] for k in orbit_cols}
        for _, args, _ in calls:
            if len(args) != width:
                return ("C01:group-size", f"topology {j}: callback got {len(args)} vertices {args}, expected {width}")
            pos = 0
            for k in orbit_cols:
                slots[k].extend(args[pos:pos + sizes[k]])
                pos += sizes[k]
        for k in orbit_cols:
            want = sorted(v for v in range(N) for _ in range(jds[v][k]))
            if sorted(slots[k]) != want:
                return ("C01:stub-slots", f"orbit column {k}: vertices placed {sorted(slots[k])}, requested {want}")
    if obs["jds_after"] != jds:
        return ("C01:jds-mutated", f"the caller's sequence was changed to {obs['jds_after']}")
    if meta["kind"] == "network":
        if any((not isinstance(n, int)) or n < 0 or n >= N for n in obs["nodes"]):
            return ("C01:vertex-out-of-range", f"nodes {obs['nodes']}")
        if obs["nodes"] != list(range(N)):
            return ("C01:network-missing-vertex", f"network nodes {obs['nodes']} != 0..{N - 1}")
        for n in obs["nodes"]:
            if obs["node_jd"][n] is None or tuple(obs["node_jd"][n]) != jds[n]:
                return ("C01:network-jds", f"node {n} annotated {obs['node_jd'][n]}, requested {jds[n]}")
        want = set()
        for _, _, ret in log:
            for e in as_edges(ret):
                want.add(tuple(sorted(e)))
        if set(obs["edges"]) != want:
            return ("C01:network-edges", f"network edges {obs['edges']} != returned pairs {sorted(want)}")
    else:
        jd = obs["joint_degrees"]
        if jd is None or [tuple(r) for r in jd] != jds or len(jd) != N:
            return ("C01:jds-not-carried", f"joint_degrees {jd} != {jds}")
        for e in obs["edge_list"]:
            for v in flatten(e):
                if not isinstance(v, int) or v < 0 or v >= N:
                    return ("C01:vertex-out-of-range", f"edge entry {e}")
    return None


def flatten(x):
    if isinstance(x, (tuple, list)):
        for y in x:
            yield from flatten(y)
    else:
        yield x


def as_edges(ret):
    """Edges a build callback returned: a bare (a, b) pair or a sequence of pairs."""
    if isinstance(ret, (tuple, list)) and len(ret) == 2 and not isinstance(ret[0], (tuple, list)):
        return [tuple(ret)]
    return [tuple(e) for e in ret]


def prescribed_names(meta, j, n_edges):
    """Names the configuration prescribes for the edges of one instance of motif j."""
    if meta["kind"] != "custom":
        return [meta["names"][j]] * n_edges
    ret = meta["name_of"][j]()
    if isinstance(ret, str):
        return [ret]
    return list(ret)


def check_c02(obs, meta, leaf):
    if leaf.exception is not None:
        return ("C02:exception", f"generator raised {leaf.exception!r}")
    if "wrong_class" in obs:
        return ("C02:factory-dispatch", f"factory returned {obs['wrong_class']}")
    el, tops, ids = obs["edge_list"], obs["topologies"], obs["motif_id"]
    N = len(meta["jds"])
    shape = "+".join(sorted({("bare" if not isinstance(r[0], (tuple, list)) else f"{len(r)}edges")
                             for _, _, r in obs["log"] if len(r)})) or "none"
    if not (len(el) == len(tops) == len(ids)):
        return (f"C02:column-lengths:{meta['kind']}:{shape}",
                f"columns have lengths edges={len(el)} topologies={len(tops)} motif_id={len(ids)}")
    for e in el:
        ok = isinstance(e, (tuple, list)) and len(e) == 2 and all(
            isinstance(v, int) and not isinstance(v, bool) and 0 <= v < N for v in e)
        if not ok:
            return (f"C02:edge-not-a-pair:{meta['kind']}:{shape}", f"edge entry {e!r} is not a pair of vertex ids")
    # rows grouped by id must be exactly one callback return each
    groups = {}
    for i, m in enumerate(ids):
        groups.setdefault(m, []).append(i)
    returns = [(j, as_edges(r)) for j, _, r in obs["log"] if len(as_edges(r))]
    if len(groups) != len(returns):
        return (f"C02:id-groups:{meta['kind']}", f"{len(groups)} distinct motif ids for {len(returns)} motif instances")
    # every topology must label as many motif instances as the joint degree sequence prescribes for it
    exp = expected_counts(meta)
    for j, want_n in enumerate(exp):
        got_n = sum(1 for jj, edges in returns if jj == j)
        n_edges_known = all(len(as_edges(r)) for jj, _, r in obs["log"] if jj == j)
        if n_edges_known and got_n != want_n:
            return (f"C02:instances-per-topology:{meta['kind']}",
                    f"topology {j} carries its name on {got_n} motif instances, the joint degree sequence prescribes "
                    f"{want_n}")
    pool = list(returns)
    for m, rows in groups.items():
        got = [tuple(el[i]) for i in rows]
        hit = None
        for idx, (j, edges) in enumerate(pool):
            if sorted(edges) == sorted(got):
                hit = idx
                break
        if hit is None:
            return (f"C02:id-group-not-a-motif:{meta['kind']}",
                    f"rows with motif id {m} are {got}: not the edges of one build-callback return")
        j, edges = pool.pop(hit)
        want = prescribed_names(meta, j, len(edges))
        if sorted(zip(got, [tops[i] for i in rows])) != sorted(zip(edges, want)):
            return (f"C02:names:{meta['kind']}", f"motif id {m} ({got}) carries names {[tops[i] for i in rows]}, "
                    f"prescribed {want} for {edges}")
    return None


def explore_instance(inst, tier, path, on_obs, recheck_every=16, track_prob=False):
    """Explore every shuffle resolution of one generation.  on_obs(obs, meta, leaf)."""
    body, meta = make_body(inst, tier, path)

    def on_leaf(leaf):
        on_obs(leaf.outcome, meta, leaf)
    st = engine.explore(body, on_leaf, max_points=400, recheck_every=recheck_every, sig=sig,
                        track_prob=track_prob, max_leaves=BOX[tier]["leaf_cap"] * 4 + 10)
    if st.cut_leaves:
        raise engine.InfraError("generator exploration truncated")
    if track_prob and st.mass != 1:
        raise engine.InfraError(f"leaf probabilities sum to {st.mass}, not 1")
    return st, meta


def gen_snippet(inst, tier, path, calls):
    return ("# reproduce without the explorer: run with /venv/bin/python from /verif\n"
            "import sys; sys.path[:0] = ['/repo', '/verif']\nCALLS = %r\n" % (calls,) + engine.STANDALONE_STUB +
            "from mc import gen_common\n"
            "body, meta = gen_common.make_body(%r, %r, %r)\nobs = body()\n"
            "print({k: v for k, v in obs.items() if k != 'log'})\n" % (inst, tier, path))
