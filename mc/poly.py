"""Exact multivariate polynomials with Fraction coefficients, usable as phi / u arguments of gcmpy's equations."""
from fractions import Fraction
from numbers import Real


def _coef(x):
    if isinstance(x, Fraction):
        return x
    if isinstance(x, bool):
        raise TypeError("bool in polynomial arithmetic")
    if isinstance(x, int):
        return Fraction(x)
    if isinstance(x, float):
        return Fraction(x)  # exact
    try:
        import numpy as np
        if isinstance(x, np.integer):
            return Fraction(int(x))
        if isinstance(x, np.floating):
            return Fraction(float(x))
    except ImportError:
        pass
    raise TypeError(f"cannot mix Poly with {type(x).__name__}")


class Poly:
    """terms: dict monomial -> Fraction, monomial = tuple of (var, exp) sorted by var."""
    __slots__ = ("terms",)
    __array_ufunc__ = None

    def __init__(self, terms=None):
        self.terms = {m: c for m, c in (terms or {}).items() if c != 0}

    @staticmethod
    def var(name):
        return Poly({((name, 1),): Fraction(1)})

    @staticmethod
    def const(c):
        return Poly({(): _coef(c)})

    @staticmethod
    def lift(x):
        return x if isinstance(x, Poly) else Poly.const(x)

    def __add__(self, o):
        o = Poly.lift(o)
        t = dict(self.terms)
        for m, c in o.terms.items():
            t[m] = t.get(m, 0) + c
        return Poly(t)

    __radd__ = __add__

    def __neg__(self):
        return Poly({m: -c for m, c in self.terms.items()})

    def __sub__(self, o):
        return self + (-Poly.lift(o))

    def __rsub__(self, o):
        return Poly.lift(o) + (-self)

    def __mul__(self, o):
        o = Poly.lift(o)
        t = {}
        for m1, c1 in self.terms.items():
            d1 = dict(m1)
            for m2, c2 in o.terms.items():
                d = dict(d1)
                for v, e in m2:
                    d[v] = d.get(v, 0) + e
                m = tuple(sorted(d.items()))
                t[m] = t.get(m, 0) + c1 * c2
        return Poly(t)

    __rmul__ = __mul__

    def __truediv__(self, o):
        return self * (1 / _coef(o))

    def __pow__(self, n):
        if isinstance(n, float):
            if n != int(n):
                raise TypeError(f"non-integral exponent {n}")
            n = int(n)
        if isinstance(n, Fraction):
            if n.denominator != 1:
                raise TypeError(f"non-integral exponent {n}")
            n = int(n)
        if not isinstance(n, int) or n < 0:
            raise TypeError(f"bad exponent {n!r}")
        result = Poly.const(1)
        base = self
        while n:
            if n & 1:
                result = result * base
            base = base * base
            n >>= 1
        return result

    def __eq__(self, o):
        if not isinstance(o, (Poly, Real, Fraction)):
            return NotImplemented
        return self.terms == Poly.lift(o).terms

    def __hash__(self):
        return hash(frozenset(self.terms.items()))

    def subs(self, env):
        """Evaluate with env: var -> number (all variables must be bound)."""
        tot = Fraction(0)
        for m, c in self.terms.items():
            v = c
            for name, e in m:
                v *= _coef(env[name]) ** e
            tot += v
        return tot

    def __repr__(self):
        if not self.terms:
            return "0"
        parts = []
        for m, c in sorted(self.terms.items()):
            mono = "*".join(f"{v}^{e}" if e != 1 else f"{v}" for v, e in m)
            parts.append(f"{c}" + (f"*{mono}" if mono else ""))
        return " + ".join(parts)


def diff_summary(a, b, limit=3):
    """Human-readable list of coefficient differences between two polynomials."""
    a, b = Poly.lift(a), Poly.lift(b)
    out = []
    for m in sorted(set(a.terms) | set(b.terms)):
        ca, cb = a.terms.get(m, 0), b.terms.get(m, 0)
        if ca != cb:
            mono = "*".join(f"{v}^{e}" for v, e in m) or "1"
            out.append(f"[{mono}]: {ca} vs {cb}")
            if len(out) >= limit:
                break
    return "; ".join(out)
