"""Regenerates MANIFEST.json from the check modules that exist (run: /venv/bin/python -B mc/manifest_gen.py)."""
import importlib
import json
import os
import sys

HERE = os.path.dirname(os.path.abspath(__file__))
VERIF = os.path.dirname(HERE)
sys.path.insert(0, VERIF)
sys.path.insert(0, "/repo")
from mc import engine  # noqa: E402
engine.install()

ALL = [f"C{i:02d}" for i in range(1, 21)]
TECH = {
    "C01": "stateless model checking of the real generators: DFS over every resolution of random.shuffle (distinct stub arrangements) for every input of a bounded box",
    "C02": "stateless model checking of the real generators: DFS over every shuffle resolution x exhaustive motif-shape catalogue",
    "C03": "stateless model checking with exact probabilities: the full RNG choice tree gives the exact output distribution, compared with the configuration-model measure",
    "C04": "exhaustive enumeration of inputs (all generator outputs over all RNG resolutions + all hand-enumerated edge lists in a box) against an independent description",
    "C05": "stateless model checking of the real sampler: DFS over every weighted draw and every patch position with exact probabilities",
    "C06": "exhaustive input grids; sampling mode by DFS over every RNG resolution with exact expectation",
    "C07": "exhaustive input grid against a reference model (own enumeration of splits); short histories of resolve_degree",
    "C08": "exhaustive enumeration of all covers in a box against a reference model",
    "C09": "stateless model checking of the real EECC: DFS over every tie-break sequence for every labelled graph of a bounded box",
    "C10": "stateless model checking of the real MPCC: every alternative order at the shuffle point (exhaustive per size class up to 6 members) for every graph of a bounded box",
    "C11": "explicit-state model checking: state graph of accepted swaps over every clean network of a box + scenario closures by BFS; each transition = real rewire() under the RNG explorer with a deviation bound",
    "C12": "explicit-state model checking as C11 under restricted targets, plus the exact accepted-swap Markov chain (one proposal iteration explored completely via a guarded hook) compared with a harness-side reference chain",
    "C13": "exhaustive enumeration of all clean networks of a box x explicit call histories on one extractor against a from-scratch count",
    "C14": "exhaustive input grids and all clean networks of a box; every identity evaluated from its definition",
    "C15": "exhaustive motif box with symbolic arguments (polynomial identity against a 2^|E| enumeration) + explicit-state BFS to fixpoint over evaluator cache states",
    "C16": "polynomial identity against exhaustive 2^|E| enumeration; counts against exhaustive enumeration of all labelled graphs",
    "C17": "exhaustive enumeration of cover-labelled networks against a reference fixed-point solver; explicit-state BFS over query histories",
    "C18": "stateless model checking with exact probabilities: 2^|E| resolutions of the per-edge uniform comparison (symbolic uniform)",
    "C19": "bounded exhaustive evaluation over a parameter grid (no state space; level = exploration)",
    "C20": "explicit-state model checking: BFS to fixpoint over the real DrawSet against a reference set, every RNG resolution of draw()",
}
NA = {}

checks = []
na = []
for pid in ALL:
    path = os.path.join(HERE, "props", pid.lower() + ".py")
    if not os.path.exists(path):
        na.append({"property_id": pid, "reason": NA.get(pid, "check not built yet (work in progress); see DESIGN.md section 6")})
        continue
    mod = importlib.import_module(f"mc.props.{pid.lower()}")
    checks.append({
        "property_id": pid,
        "quick_cmd": f"./check {pid} --tier quick",
        "thorough_cmd": f"./check {pid} --tier thorough",
        "evidence_file": f"/verif/evidence/{pid}.json",
        "replay_cmd_template": f"./check {pid} --replay {{path}}",
        "engine": getattr(mod, "ENGINE", "rng-explorer"),
        "level_claimed": {"category": mod.LEVEL, "text": getattr(mod, "LEVEL_TEXT", mod.RULE),
                          "design_ref": f"DESIGN.md section 6 ({pid}) as amended by section 12 (as built)"},
        "level_note": "; ".join(getattr(mod, "ASSUMPTIONS", [])) or "trusted base: the harness in /verif/mc, CPython, networkx",
        "technique": getattr(mod, "TECHNIQUE", TECH.get(pid, "model checking: exhaustive exploration of the real code")),
    })

manifest = {
    "version": 1,
    "setup_cmd": "/venv/bin/python -B -W ignore -c \"import sys; sys.path.insert(0,'/verif'); sys.path.insert(0,'/repo'); from mc import engine; engine.install(); import gcmpy, networkx; print('ok')\"",
    "hooks": {
        "guard": "GCMPY_VERIF",
        "enable": "checks export GCMPY_VERIF=1 and import gcmpy from /repo's working tree (pure Python, nothing to build)",
        "baseline_off_cmd": "cd /repo && env -u GCMPY_VERIF /venv/bin/python -m pytest -ra -q -p no:cacheprovider --timeout=900 --continue-on-collection-errors",
        "source_commits": ["b616493"],
        "add_only": True,
    },
    "engines": [
        {"name": "rng-explorer", "path": "/verif/mc/engine.py",
         "serves_properties": [c["property_id"] for c in checks],
         "kind_free_text": "stateless DFS over every resolution of every call into the random module made by the real code (exact probabilities, symbolic uniform), plus explicit-state BFS drivers in mc/props"},
    ],
    "checks": checks,
    "not_applicable": na,
    "notes": "All checks explore the real code in /repo's working tree; no abstract model. See DESIGN.md.",
}
with open(os.path.join(VERIF, "MANIFEST.json"), "w") as f:
    json.dump(manifest, f, indent=1)
print("checks:", [c["property_id"] for c in checks], "not_applicable:", [n["property_id"] for n in na])
