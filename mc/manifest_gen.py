"""Regenerates MANIFEST.json from the check modules that exist (run: /venv/bin/python -B mc/manifest_gen.py)."""
import importlib
import json
import os
import sys

HERE = os.path.dirname(os.path.abspath(__file__))
VERIF = os.path.dirname(HERE)
sys.path.insert(0, VERIF)
sys.path.insert(0, "/repo")
from mc import engine  # noqa: E402
engine.install()

ALL = [f"C{i:02d}" for i in range(1, 21)]
NA = {}

checks = []
na = []
for pid in ALL:
    path = os.path.join(HERE, "props", pid.lower() + ".py")
    if not os.path.exists(path):
        na.append({"property_id": pid, "reason": NA.get(pid, "check not built yet (work in progress); see DESIGN.md section 6")})
        continue
    mod = importlib.import_module(f"mc.props.{pid.lower()}")
    checks.append({
        "property_id": pid,
        "quick_cmd": f"./check {pid} --tier quick",
        "thorough_cmd": f"./check {pid} --tier thorough",
        "evidence_file": f"/verif/evidence/{pid}.json",
        "replay_cmd_template": f"./check {pid} --replay {{path}}",
        "engine": getattr(mod, "ENGINE", "rng-explorer"),
        "level_claimed": {"category": mod.LEVEL, "text": getattr(mod, "LEVEL_TEXT", mod.RULE),
                          "design_ref": f"DESIGN.md section 6 ({pid})"},
        "level_note": "; ".join(getattr(mod, "ASSUMPTIONS", [])) or "trusted base: the harness in /verif/mc, CPython, networkx",
        "technique": getattr(mod, "TECHNIQUE", "model checking: exhaustive exploration of the real code (all RNG resolutions / all operation histories / all inputs in a stated box)"),
    })

manifest = {
    "version": 1,
    "setup_cmd": "/venv/bin/python -B -W ignore -c \"import sys; sys.path.insert(0,'/verif'); sys.path.insert(0,'/repo'); from mc import engine; engine.install(); import gcmpy, networkx; print('ok')\"",
    "hooks": {
        "guard": "GCMPY_VERIF",
        "enable": "checks export GCMPY_VERIF=1 and import gcmpy from /repo's working tree (pure Python, nothing to build)",
        "baseline_off_cmd": "cd /repo && env -u GCMPY_VERIF /venv/bin/python -m pytest -ra -q -p no:cacheprovider --timeout=900 --continue-on-collection-errors",
        "source_commits": ["b616493"],
        "add_only": True,
    },
    "engines": [
        {"name": "rng-explorer", "path": "/verif/mc/engine.py",
         "serves_properties": [c["property_id"] for c in checks],
         "kind_free_text": "stateless DFS over every resolution of every call into the random module made by the real code (exact probabilities, symbolic uniform), plus explicit-state BFS drivers in mc/props"},
    ],
    "checks": checks,
    "not_applicable": na,
    "notes": "All checks explore the real code in /repo's working tree; no abstract model. See DESIGN.md.",
}
with open(os.path.join(VERIF, "MANIFEST.json"), "w") as f:
    json.dump(manifest, f, indent=1)
print("checks:", [c["property_id"] for c in checks], "not_applicable:", [n["property_id"] for n in na])
