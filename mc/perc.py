"""Independent bond-percolation oracle: enumerate all 2^|E| occupation states of a motif."""
import functools
from fractions import Fraction

from mc.poly import Poly


def component_counts(verts, edges, root):
    """count[(frozenset component of root, number of occupied edges)] over all occupation states (bit masks)."""
    return _component_counts(tuple(verts), tuple(tuple(e) for e in edges), root)


@functools.lru_cache(maxsize=4096)
def _component_counts(verts, edges, root):
    verts = list(verts)
    idx = {v: i for i, v in enumerate(verts)}
    m = len(edges)
    ebits = [(1 << idx[a]) | (1 << idx[b]) for a, b in edges]
    ea = [idx[a] for a, b in edges]
    eb = [idx[b] for a, b in edges]
    r = idx[root]
    counts = {}
    n = len(verts)
    for mask in range(1 << m):
        # grow root's component by repeated absorption (n is tiny)
        comp = 1 << r
        occ = [i for i in range(m) if mask >> i & 1]
        changed = True
        while changed:
            changed = False
            for i in occ:
                eb_ = ebits[i]
                if comp & eb_ and (comp | eb_) != comp:
                    comp |= eb_
                    changed = True
        key = (comp, len(occ))
        counts[key] = counts.get(key, 0) + 1
    out = {}
    for (comp, k), c in counts.items():
        members = frozenset(verts[i] for i in range(n) if comp >> i & 1)
        out[(members, k)] = c
    return out


def expectation_poly(verts, edges, root, p, u):
    """E[ prod_{j in comp(root) \\ root} u_j ] as a polynomial; p Poly, u: vertex -> Poly."""
    m = len(edges)
    counts = component_counts(verts, edges, root)
    q = 1 - p
    ppow = [Poly.const(1)]
    qpow = [Poly.const(1)]
    for _ in range(m):
        ppow.append(ppow[-1] * p)
        qpow.append(qpow[-1] * q)
    by_comp = {}
    for (members, k), c in counts.items():
        by_comp[members] = by_comp.get(members, Poly()) + ppow[k] * qpow[m - k] * c
    total = Poly()
    for members, weight in by_comp.items():
        mono = Poly.const(1)
        for j in sorted(members, key=repr):
            if j != root:
                mono = mono * u[j]
        total = total + weight * mono
    return total


def expectation_float(verts, edges, root, phi, u):
    """Same expectation in floating point (u: vertex -> float)."""
    m = len(edges)
    counts = component_counts(verts, edges, root)
    tot = 0.0
    for (members, k), c in counts.items():
        w = c * (phi ** k) * ((1 - phi) ** (m - k))
        for j in members:
            if j != root:
                w *= u[j]
        tot += w
    return tot
