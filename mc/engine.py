"""Exhaustive explorer of RNG resolutions ("schedules") on the real gcmpy code.

The stdlib ``random`` module's public functions are replaced by dispatchers *before* gcmpy is
imported (so ``from random import choice`` binds to the dispatcher as well).  With no exploration
active a dispatcher forwards to the original function.  With an exploration active every call is
a choice point with an exact probability; ``explore`` runs the body once per path of the choice
tree (stateless DFS, re-executing from the start with a recorded prefix).

See DESIGN.md section 2.
"""
import random as _random
import sys
from fractions import Fraction


class Cut(BaseException):
    """Path truncated by an explicit bound (BaseException: library `except Exception` must not eat it)."""


class InfraError(BaseException):
    """Problem of the harness / uncontrolled nondeterminism: never a verdict (exit 2)."""


class UncontrolledNondeterminism(InfraError):
    pass


class UnsupportedRandomUse(InfraError):
    pass


class ReplayDivergence(InfraError):
    pass


class TreeTooLarge(InfraError):
    """The choice tree of one instance exceeds the stated cap: the instance is skipped and counted, never sampled."""


_ACTIVE = None  # the Run currently executing, or None

_NAMES = ["random", "choice", "choices", "shuffle", "sample", "randrange", "randint", "uniform"]
_TRAPPED = ["gauss", "normalvariate", "betavariate", "expovariate", "gammavariate", "getrandbits",
            "lognormvariate", "paretovariate", "triangular", "vonmisesvariate", "weibullvariate",
            "randbytes", "seed", "getstate", "setstate", "binomialvariate"]
_ORIG = {}


def _frac(x):
    if isinstance(x, Fraction):
        return x
    if isinstance(x, bool):
        return Fraction(int(x))
    if isinstance(x, int):
        return Fraction(x)
    try:
        return Fraction(x)  # exact for floats
    except (TypeError, ValueError):
        return Fraction(float(x))


class Point:
    __slots__ = ("n", "allowed", "taken", "p", "label")

    def __init__(self, n, allowed, taken, p, label):
        self.n = n
        self.allowed = allowed
        self.taken = taken
        self.p = p
        self.label = label


class Run:
    """One execution: replays ``prefix`` then takes the first allowed alternative at later points."""

    def __init__(self, prefix, max_points, shuffle_alts=None, track_prob=True, observer=None):
        self.observer = observer  # callable(kind, payload) invoked at draw points (read-only observation)
        self.prefix = prefix  # list of (taken, n)
        self.points = []
        self.calls = []  # resolved results per random call, for standalone replay
        self.max_points = max_points
        self.shuffle_alts = shuffle_alts
        self.track_prob = track_prob
        self.prob = Fraction(1)
        self.uniforms = []
        self.cut = False
        self.scripted = 0      # > 0 inside scripted_prefix(): choices follow a fixed private stream, unrecorded
        self._script_rng = None

    def choose(self, n, probs=None, label=""):
        """Choice point with n alternatives; probs = list of exact probabilities or None (uniform)."""
        if n <= 0:
            raise IndexError("choice from an empty population")
        if self.scripted:
            # a deterministic warm-up segment of the history (see scripted_prefix): one fixed schedule, not explored
            ok = list(range(n)) if probs is None else [k for k in range(n) if probs[k] > 0]
            if not ok:
                raise ValueError("Total of weights must be greater than zero")
            if self._script_rng is None:
                self._script_rng = _ORIG["Random"](20240607)   # private Mersenne Twister, re-created per execution
            return ok[self._script_rng.randrange(len(ok))]
        i = len(self.points)
        if probs is None:
            allowed = None
        else:
            allowed = [k for k in range(n) if probs[k] > 0]
            if not allowed:
                raise ValueError("Total of weights must be greater than zero")
        if i < len(self.prefix):
            k, n_expected = self.prefix[i]
            if n_expected != n or k >= n or (probs is not None and not probs[k] > 0):
                raise ReplayDivergence(
                    f"choice point {i} ({label}): arity {n} vs recorded {n_expected}, taken {k}")
        else:
            if i >= self.max_points:
                self.cut = True
                raise Cut(f"more than {self.max_points} choice points")
            k = 0 if allowed is None else allowed[0]
        if self.track_prob:
            p = Fraction(1, n) if probs is None else probs[k]
            self.prob *= p
        else:
            p = None
        self.points.append(Point(n, allowed, k, p, label))
        return k

    # -- signature used by the determinism guard
    def signature(self):
        return tuple((pt.n, pt.taken) for pt in self.points)

    def choice_list(self):
        return [(pt.taken, pt.n) for pt in self.points]

    def plain_choices(self):
        return [pt.taken for pt in self.points]

    def resolved_calls(self):
        out = []
        for c in self.calls:
            if c[0] == "random":
                u = c[1]
                out.append(["random", float((u.lo + u.hi) / 2), [str(t) for t in u.thresholds]])
            else:
                out.append(list(c))
        return out


class SymbolicUniform:
    """Value uniform on [lo, hi); supports only order comparisons with reals (each a choice point)."""
    __array_ufunc__ = None
    __array_priority__ = 1e9
    __slots__ = ("run", "lo", "hi", "thresholds")

    def __init__(self, run):
        self.run = run
        self.lo = Fraction(0)
        self.hi = Fraction(1)
        self.thresholds = []

    def _below(self, c):
        """Event U < c (== U <= c almost surely)."""
        if isinstance(c, SymbolicUniform):
            raise UnsupportedRandomUse("comparison of two uniforms")
        try:
            cf = _frac(c)
        except Exception:
            raise UnsupportedRandomUse(f"uniform compared with {type(c).__name__}")
        self.thresholds.append(cf)
        width = self.hi - self.lo
        p = (cf - self.lo) / width
        p = Fraction(0) if p < 0 else Fraction(1) if p > 1 else p
        k = self.run.choose(2, [p, 1 - p], label=f"U<{float(cf):.6g}")
        if k == 0:
            self.hi = min(self.hi, cf)
            return True
        self.lo = max(self.lo, cf)
        return False

    def __lt__(self, c):
        return self._below(c)

    def __le__(self, c):
        return self._below(c)

    def __gt__(self, c):
        return not self._below(c)

    def __ge__(self, c):
        return not self._below(c)

    def _bad(self, *a, **k):
        raise UnsupportedRandomUse("unsupported operation on random.random() (supported: order comparisons, "
                                   "affine arithmetic with reals, int()/floor of an affine image)")

    __eq__ = __ne__ = __hash__ = __float__ = __bool__ = __index__ = _bad
    __rtruediv__ = __pow__ = __rpow__ = __abs__ = __floordiv__ = __mod__ = __round__ = _bad

    # affine images a*U + b (e.g. int(random.random() * n))
    def __mul__(self, c):
        return AffineUniform(self, _frac(c), Fraction(0))

    __rmul__ = __mul__

    def __add__(self, c):
        return AffineUniform(self, Fraction(1), _frac(c))

    __radd__ = __add__

    def __sub__(self, c):
        return AffineUniform(self, Fraction(1), -_frac(c))

    def __rsub__(self, c):
        return AffineUniform(self, Fraction(-1), _frac(c))

    def __neg__(self):
        return AffineUniform(self, Fraction(-1), Fraction(0))

    def __truediv__(self, c):
        return AffineUniform(self, 1 / _frac(c), Fraction(0))

    def __int__(self):
        return int(AffineUniform(self, Fraction(1), Fraction(0)))

    def __repr__(self):
        return f"U[{self.lo},{self.hi})"


class AffineUniform:
    """a*U + b for a symbolic uniform U: supports further affine arithmetic, comparisons and int()/floor."""
    __array_ufunc__ = None
    __slots__ = ("u", "a", "b")

    def __init__(self, u, a, b):
        self.u, self.a, self.b = u, a, b

    def _aff(self, a2, b2):
        return AffineUniform(self.u, self.a * a2, self.b * a2 + b2)

    def __mul__(self, c):
        return self._aff(_frac(c), Fraction(0))

    __rmul__ = __mul__

    def __truediv__(self, c):
        return self._aff(1 / _frac(c), Fraction(0))

    def __add__(self, c):
        return self._aff(Fraction(1), _frac(c))

    __radd__ = __add__

    def __sub__(self, c):
        return self._aff(Fraction(1), -_frac(c))

    def __rsub__(self, c):
        return self._aff(Fraction(-1), _frac(c))

    def __neg__(self):
        return self._aff(Fraction(-1), Fraction(0))

    def _cmp(self, c, below):
        # a*U + b < c  <=>  U < (c-b)/a (a > 0)  or  U > (c-b)/a (a < 0)
        if self.a == 0:
            return (self.b < _frac(c)) if below else (self.b > _frac(c))
        t = (_frac(c) - self.b) / self.a
        if (self.a > 0) == below:
            return self.u._below(t)
        return not self.u._below(t)

    def __lt__(self, c):
        return self._cmp(c, True)

    __le__ = __lt__

    def __gt__(self, c):
        return self._cmp(c, False)

    __ge__ = __gt__

    def _floor(self):
        import math
        u = self.u
        if self.a == 0:
            return math.floor(self.b)
        ends = sorted((self.a * u.lo + self.b, self.a * u.hi + self.b))
        k0, k1 = math.floor(ends[0]), math.ceil(ends[1])
        vals = list(range(k0, k1))
        width = u.hi - u.lo
        pieces = []
        for k in vals:
            # U-interval on which floor(a*U+b) == k
            x0, x1 = (Fraction(k) - self.b) / self.a, (Fraction(k + 1) - self.b) / self.a
            lo_, hi_ = max(min(x0, x1), u.lo), min(max(x0, x1), u.hi)
            if hi_ > lo_:
                pieces.append((k, lo_, hi_))
        if not pieces:
            raise UnsupportedRandomUse("empty image of an affine uniform")
        j = u.run.choose(len(pieces), [(h - l) / width for _, l, h in pieces], "floor(aU+b)")
        k, u.lo, u.hi = pieces[j]
        u.thresholds.append(Fraction(k))
        return k

    def __int__(self):
        v = self._floor() if True else 0
        # int() truncates towards zero; for negative non-integral values floor differs by one
        if v < 0:
            raise UnsupportedRandomUse("int() of a negative affine uniform")
        return v

    __floor__ = _floor
    __trunc__ = __int__

    def _bad(self, *a, **k):
        raise UnsupportedRandomUse("unsupported operation on an affine image of random.random()")

    __eq__ = __ne__ = __hash__ = __float__ = __bool__ = __index__ = __pow__ = __abs__ = __mod__ = __round__ = _bad


# ---------------------------------------------------------------- dispatchers

def _d_random():
    run = _ACTIVE
    if run is None:
        return _ORIG["random"]()
    u = SymbolicUniform(run)
    run.uniforms.append(u)
    run.calls.append(("random", u))
    return u


def _d_choice(seq):
    run = _ACTIVE
    if run is None:
        return _ORIG["choice"](seq)
    n = len(seq)
    if n == 0:
        raise IndexError("Cannot choose from an empty sequence")
    if run.observer is not None and not run.scripted:
        run.observer("choice", seq)
    k = run.choose(n, None, "choice")
    run.calls.append(("choice", k))
    return seq[k]


def _d_randrange(start, stop=None, step=1):
    run = _ACTIVE
    if run is None:
        return _ORIG["randrange"](start, stop, step)
    rng = range(start) if stop is None else range(start, stop, step)
    if len(rng) == 0:
        raise ValueError("empty range for randrange()")
    if run.observer is not None and not run.scripted:
        run.observer("randrange", rng)
    k = run.choose(len(rng), None, "randrange")
    run.calls.append(("randrange", rng[k]))
    return rng[k]


def _d_randint(a, b):
    return _d_randrange(a, b + 1)


def _d_choices(population, weights=None, *, cum_weights=None, k=1):
    run = _ACTIVE
    if run is None:
        return _ORIG["choices"](population, weights, cum_weights=cum_weights, k=k)
    population = list(population)
    n = len(population)
    if cum_weights is not None:
        if weights is not None:
            raise TypeError("Cannot specify both weights and cumulative weights")
        cw = [_frac(w) for w in cum_weights]
        weights = [cw[0]] + [cw[i] - cw[i - 1] for i in range(1, len(cw))]
    if weights is None:
        probs = None
    else:
        if len(weights) != n:
            raise ValueError("The number of weights does not match the population")
        ws = [_frac(w) for w in weights]
        if any(w < 0 for w in ws):
            raise ValueError("Weights must be non-negative")
        tot = sum(ws)
        if tot <= 0:
            raise ValueError("Total of weights must be greater than zero")
        probs = [w / tot for w in ws]
    if n == 0:
        raise IndexError("Cannot choose from an empty population")
    idx = [run.choose(n, probs, "choices") for _ in range(k)]
    run.calls.append(("choices", idx))
    return [population[i] for i in idx]


def _hashable(v):
    try:
        hash(v)
        return True
    except TypeError:
        return False


def _d_shuffle(x):
    run = _ACTIVE
    if run is None:
        return _ORIG["shuffle"](x)
    n = len(x)
    if run.shuffle_alts is not None:
        # check-supplied alternative generator: (count, get(k) -> arrangement); uniform weights,
        # probabilities are not tracked for such points
        count, get = run.shuffle_alts(list(x))
        k = run.choose(count, None, "shuffle*")
        x[:] = get(k)
        run.calls.append(("shuffle", list(x)))
        return None
    items = list(x)
    if all(_hashable(v) for v in items):
        # distinct arrangements of the multiset: position by position choose among the distinct
        # remaining values with probability multiplicity/remaining (product = multiplicity/n!)
        counts = {}
        order = []
        for v in items:
            if v not in counts:
                counts[v] = 0
                order.append(v)
            counts[v] += 1
        out = []
        remaining = n
        while remaining:
            vals = [v for v in order if counts[v] > 0]
            if len(vals) == 1:
                out.extend([vals[0]] * counts[vals[0]])
                break
            probs = [Fraction(counts[v], remaining) for v in vals]
            k = run.choose(len(vals), probs, "shuffle")
            v = vals[k]
            counts[v] -= 1
            remaining -= 1
            out.append(v)
    else:
        pool = list(range(n))
        out = []
        while pool:
            if len(pool) == 1:
                out.append(items[pool.pop()])
                break
            k = run.choose(len(pool), None, "shuffle")
            out.append(items[pool.pop(k)])
    x[:] = out
    run.calls.append(("shuffle", list(out)))
    return None


def _d_sample(population, k, *, counts=None):
    run = _ACTIVE
    if run is None:
        return _ORIG["sample"](population, k, counts=counts)
    if counts is not None:
        raise UnsupportedRandomUse("sample(counts=...)")
    pool = list(population)
    if not 0 <= k <= len(pool):
        raise ValueError("Sample larger than population or is negative")
    if run.shuffle_alts is not None and k == len(pool):
        # a full-length sample is a shuffle: use the check's alternative generator for it as well
        count, get = run.shuffle_alts(list(pool))
        j = run.choose(count, None, "sample*")
        out = list(get(j))
        run.calls.append(("sample", list(out)))
        return out
    out = []
    if all(_hashable(v) for v in pool):
        # equal values are interchangeable: choose among the distinct remaining values with probability
        # multiplicity/remaining (exact; the same reduction as for shuffle)
        counts, order = {}, []
        for v in pool:
            if v not in counts:
                counts[v] = 0
                order.append(v)
            counts[v] += 1
        remaining = len(pool)
        for _ in range(k):
            vals = [v for v in order if counts[v] > 0]
            if len(vals) == 1:
                v = vals[0]
            else:
                j = run.choose(len(vals), [Fraction(counts[v], remaining) for v in vals], "sample")
                v = vals[j]
            counts[v] -= 1
            remaining -= 1
            out.append(v)
    else:
        for _ in range(k):
            j = run.choose(len(pool), None, "sample")
            out.append(pool.pop(j))
    run.calls.append(("sample", list(out)))
    return out


def _d_uniform(a, b):
    if _ACTIVE is None:
        return _ORIG["uniform"](a, b)
    raise UnsupportedRandomUse("random.uniform is not modelled by the seam")


RESEEDS = []   # calls of random.seed / random.setstate made by library code (the library must not re-seed the process)


def _library_caller():
    f = sys._getframe(2)
    mod = f.f_globals.get("__name__", "")
    if mod == "gcmpy" or mod.startswith("gcmpy."):
        return f"{mod}:{f.f_lineno}"
    return None


class scripted_prefix:
    """Context manager: random calls made inside it (by the code under test) follow ONE fixed pseudo-random schedule
    that is identical in every execution, create no choice points and are not observed.  Used to put an object into
    a non-initial state (e.g. one earlier rewire() call) before the explored call."""

    def __enter__(self):
        if _ACTIVE is not None:
            _ACTIVE.scripted += 1
        return self

    def __exit__(self, *exc):
        if _ACTIVE is not None:
            _ACTIVE.scripted -= 1
        return False


def _trap(name, orig):
    def trapped(*a, **k):
        if name in ("seed", "setstate"):
            who = _library_caller()
            if who is not None:
                # recorded, not raised: the property checks (C03) report it; the explorer's choices do not depend
                # on the generator state, so the exploration itself is unaffected
                RESEEDS.append(f"random.{name}{a!r} called from {who}")
                return None if _ACTIVE is not None else orig(*a, **k)
        if _ACTIVE is not None:
            raise UncontrolledNondeterminism(f"random.{name} called during an exploration")
        return orig(*a, **k)
    trapped.__name__ = name
    return trapped


_INSTALLED = False


def install():
    """Install the seam.  Must run before gcmpy is imported."""
    global _INSTALLED
    if _INSTALLED:
        return
    if any(m == "gcmpy" or m.startswith("gcmpy.") for m in sys.modules):
        raise InfraError("engine.install() must be called before gcmpy is imported")
    disp = {"random": _d_random, "choice": _d_choice, "choices": _d_choices, "shuffle": _d_shuffle,
            "sample": _d_sample, "randrange": _d_randrange, "randint": _d_randint,
            "uniform": _d_uniform}
    for name in _NAMES:
        _ORIG[name] = getattr(_random, name)
        setattr(_random, name, disp[name])
    for name in _TRAPPED:
        if hasattr(_random, name):
            setattr(_random, name, _trap(name, getattr(_random, name)))

    _R, _SR = _random.Random, _random.SystemRandom
    _ORIG["Random"] = _R

    class Random(_R):
        def __init__(self, *a, **k):
            if _ACTIVE is not None:
                raise UncontrolledNondeterminism("random.Random() constructed during an exploration")
            super().__init__(*a, **k)

    class SystemRandom(_SR):
        def __init__(self, *a, **k):
            if _ACTIVE is not None:
                raise UncontrolledNondeterminism("random.SystemRandom() during an exploration")
            super().__init__(*a, **k)

    _random.Random = Random
    _random.SystemRandom = SystemRandom
    try:
        import numpy as np
        for name in ["random", "rand", "randn", "randint", "choice", "shuffle", "permutation",
                     "default_rng", "seed", "random_sample", "uniform", "normal", "binomial",
                     "poisson", "multinomial"]:
            if hasattr(np.random, name):
                setattr(np.random, name, _trap("numpy." + name, getattr(np.random, name)))
    except ImportError:
        pass
    _INSTALLED = True


# ---------------------------------------------------------------- exploration

class Leaf:
    __slots__ = ("run", "outcome", "exception", "cut")

    def __init__(self, run, outcome, exception, cut):
        self.run = run
        self.outcome = outcome
        self.exception = exception
        self.cut = cut

    @property
    def prob(self):
        return self.run.prob

    @property
    def choices(self):
        return self.run.plain_choices()


def execute(body, prefix=(), max_points=10_000, shuffle_alts=None, track_prob=True, observer=None):
    """Run body() once under the seam, following prefix [(taken, n), ...]."""
    global _ACTIVE
    if not _INSTALLED:
        raise InfraError("engine not installed")
    if _ACTIVE is not None:
        raise InfraError("nested exploration")
    run = Run(list(prefix), max_points, shuffle_alts, track_prob, observer)
    _ACTIVE = run
    outcome = exc = None
    cut = False
    try:
        outcome = body()
    except Cut:
        cut = True
    except InfraError:
        raise
    except (KeyboardInterrupt, SystemExit):
        raise
    except BaseException as e:  # library exception: part of the observation
        exc = e
    finally:
        _ACTIVE = None
    if len(run.points) < len(run.prefix) and not cut:
        raise ReplayDivergence(
            f"execution ended after {len(run.points)} choice points, prefix has {len(run.prefix)}")
    return Leaf(run, outcome, exc, cut)


def execute_plain(body, choices, **kw):
    """Replay a plain list of taken alternatives (arity is not checked)."""
    class _Any(int):
        def __ne__(self, o):
            return False

        def __eq__(self, o):
            return True
        __hash__ = int.__hash__
    return execute(body, [(k, _Any(0)) for k in choices], **kw)


def active_run():
    return _ACTIVE


def cut_now(reason="cut by harness"):
    """Truncate the current execution (used by hook callbacks)."""
    if _ACTIVE is not None:
        _ACTIVE.cut = True
    raise Cut(reason)


class Stats:
    def __init__(self):
        self.leaves = 0
        self.cut_leaves = 0
        self.points = 0
        self.rechecked = 0
        self.mass = Fraction(0)
        self.cut_mass = Fraction(0)


def explore(body, on_leaf, max_points=10_000, shuffle_alts=None, track_prob=True,
            recheck_every=0, sig=repr, max_leaves=None, stats=None, observer=None):
    """Stateless DFS over every resolution of every random call made by body().

    on_leaf(leaf) is called for every path.  Every ``recheck_every``-th leaf (all if 1) is executed
    a second time from its recorded choice list and must reproduce the same observation.
    Returns Stats.  Raises InfraError if max_leaves is exceeded (never silently truncates).
    """
    st = stats if stats is not None else Stats()
    stack = [[]]
    while stack:
        prefix = stack.pop()
        leaf = execute(body, prefix, max_points, shuffle_alts, track_prob, observer)
        st.leaves += 1
        pts = leaf.run.points
        st.points += len(pts) - len(prefix)
        if track_prob:
            if leaf.cut:
                st.cut_mass += leaf.run.prob
            else:
                st.mass += leaf.run.prob
        if leaf.cut:
            st.cut_leaves += 1
        if max_leaves is not None and st.leaves > max_leaves:
            raise TreeTooLarge(f"choice tree larger than the stated cap of {max_leaves} leaves")
        on_leaf(leaf)
        if recheck_every and (st.leaves % recheck_every == 0):
            again = execute(body, leaf.run.choice_list(), max_points, shuffle_alts, track_prob, observer)
            st.rechecked += 1
            if (again.run.signature() != leaf.run.signature() or again.cut != leaf.cut
                    or sig(again.outcome) != sig(leaf.outcome)
                    or type(again.exception) is not type(leaf.exception)):
                raise ReplayDivergence(
                    f"re-execution of {leaf.choices} differs: {sig(again.outcome)[:200]} vs "
                    f"{sig(leaf.outcome)[:200]}")
        base = leaf.run.choice_list()
        for i in range(len(pts) - 1, len(prefix) - 1, -1):
            pt = pts[i]
            alts = range(pt.n) if pt.allowed is None else pt.allowed
            for alt in alts:
                if alt != pt.taken:
                    stack.append(base[:i] + [(alt, pt.n)])
    return st


STANDALONE_STUB = '''
# --- list-driven stand-in for the random module (no explorer needed) ---
import random as _random
_calls = list(CALLS)
def _next(kind):
    c = _calls.pop(0)
    assert c[0] == kind, (c, kind)
    return c
def _shuffle(x): x[:] = _next("shuffle")[1]
_random.shuffle = _shuffle
_random.choice = lambda seq: seq[_next("choice")[1]]
_random.choices = lambda population, weights=None, cum_weights=None, k=1: [list(population)[i] for i in _next("choices")[1]]
_random.randrange = lambda *a: _next("randrange")[1]
_random.random = lambda: _next("random")[1]
_random.sample = lambda population, k: _next("sample")[1]
'''
