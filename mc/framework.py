"""Runner: instance-parallel execution of a check module, evidence, replay artefacts, known findings."""
import hashlib
import importlib
import json
import multiprocessing as mp
import os
import sys
import time
import traceback

VERIF = os.path.dirname(os.path.dirname(os.path.abspath(__file__)))
REPO = os.environ.get("GCMPY_REPO", "/repo")

LEVELS = ("exploration", "fault_enumeration", "model_checking", "proof", "translation_validation", "other")


def jsonable(x):
    """Best-effort conversion to JSON-compatible data (tuples -> lists, Fractions -> str, ...)."""
    from fractions import Fraction
    if isinstance(x, (str, bool)) or x is None:
        return x
    if isinstance(x, int):
        return int(x)
    if isinstance(x, float):
        return x if x == x and abs(x) != float("inf") else repr(x)
    if isinstance(x, Fraction):
        return str(x)
    if isinstance(x, dict):
        return {(k if isinstance(k, str) else repr(k)): jsonable(v) for k, v in x.items()}
    if isinstance(x, (list, tuple)):
        return [jsonable(v) for v in x]
    if isinstance(x, (set, frozenset)):
        return sorted((jsonable(v) for v in x), key=repr)
    try:
        import numpy as np
        if isinstance(x, np.integer):
            return int(x)
        if isinstance(x, np.floating):
            return float(x)
    except ImportError:
        pass
    return repr(x)


class Result:
    """What run_instance returns (must be picklable)."""

    def __init__(self):
        self.executions = 0      # executions of real code (leaves / transitions)
        self.states = 0
        self.transitions = 0
        self.revalidated = 0     # executions repeated for the determinism guard / trace validation
        self.nontrivial = set()  # hashable keys of distinct non-trivial cases
        self.violations = []     # dicts: key, message, instance, choices, observed, expected, calls, snippet
        self.samples = []
        self.counters = {}       # free-form named counters (summed)
        self.flags = set()       # vacuity-guard flags seen
        self.skipped = 0
        self.truncated = 0
        self.infra = []          # infrastructure problems (strings)
        self.extras = []         # free-form picklable items handed to finalize (e.g. transition lists)

    def count(self, name, k=1):
        self.counters[name] = self.counters.get(name, 0) + k

    def violation(self, key, message, instance=None, **extra):
        if len(self.violations) < 50:
            v = {"key": key, "message": message, "instance": jsonable(instance)}
            v.update({k: jsonable(val) for k, val in extra.items()})
            self.violations.append(v)
        self.count("violations_total")


class Aggregate(Result):
    def merge(self, r):
        self.executions += r.executions
        self.states += r.states
        self.transitions += r.transitions
        self.revalidated += r.revalidated
        self.nontrivial |= r.nontrivial
        self.skipped += r.skipped
        self.truncated += r.truncated
        self.flags |= r.flags
        self.infra.extend(r.infra[:5])
        self.extras.extend(r.extras)
        for k, v in r.counters.items():
            self.counters[k] = self.counters.get(k, 0) + v
        self.violations.extend(r.violations)
        if len(self.samples) < 40:
            self.samples.extend(r.samples[:3])


_MODULE = None
_TIER = None


def _init_worker(modname, tier):
    global _MODULE, _TIER
    _MODULE = importlib.import_module(modname)
    _TIER = tier


def _work(batch):
    from . import engine
    out = Aggregate()
    for inst in batch:
        try:
            r = _MODULE.run_instance(inst, _TIER)
            r.nontrivial = {k if isinstance(k, int) else hash(k) for k in r.nontrivial}  # bounded memory
            if engine.RESEEDS and getattr(_MODULE, "RNG_LAW_PROPERTY", False) and not r.violations:
                # properties that quantify over the distribution of the RNG: library code that re-seeds the shared
                # generator (at import or in a call) replaces that distribution by one fixed stream
                r.violation(f"{_MODULE.ID}:library-reseeds-rng",
                            f"library code re-seeds the shared random generator: {engine.RESEEDS[0]}", inst)
            out.merge(r)
        except engine.TreeTooLarge:
            out.skipped += 1
            out.count("instances_skipped_because_their_choice_tree_exceeds_the_cap")
        except engine.InfraError as e:
            out.infra.append(f"{type(e).__name__}: {e} on instance {str(inst)[:300]}")
        except (KeyboardInterrupt, SystemExit):
            raise
        except BaseException as e:
            out.infra.append(f"harness exception {type(e).__name__}: {e} on instance {str(inst)[:300]}\n"
                             + traceback.format_exc()[-1500:])
    return out


def batches(it, size):
    b = []
    for x in it:
        b.append(x)
        if len(b) >= size:
            yield b
            b = []
    if b:
        yield b


def load_known():
    path = os.path.join(VERIF, "known_findings.json")
    if not os.path.exists(path):
        return []
    with open(path) as f:
        return json.load(f).get("findings", [])


def write_replay(pid, v):
    os.makedirs(os.path.join(VERIF, "replays"), exist_ok=True)
    blob = json.dumps(v, sort_keys=True, default=repr)
    h = hashlib.sha1(blob.encode()).hexdigest()[:10]
    path = os.path.join(VERIF, "replays", f"{pid}-{h}.json")
    with open(path, "w") as f:
        json.dump(v, f, indent=1, sort_keys=True, default=repr)
    return path


def run_check(modname, tier, seed, jobs=None):
    t0 = time.time()
    mod = importlib.import_module(modname)
    pid = mod.ID
    jobs = jobs or int(os.environ.get("VERIF_JOBS", "0")) or min(16, os.cpu_count() or 1)
    insts = mod.instances(tier, seed)
    bsize = getattr(mod, "BATCH", 1)
    agg = Aggregate()
    n_inst = 0
    if jobs == 1 or getattr(mod, "SERIAL", False):
        _init_worker(modname, tier)
        for b in batches(insts, bsize):
            n_inst += len(b)
            agg.merge(_work(b))
    else:
        ctx = mp.get_context("fork")
        with ctx.Pool(jobs, initializer=_init_worker, initargs=(modname, tier)) as pool:
            def gen():
                nonlocal n_inst
                for b in batches(insts, bsize):
                    n_inst += len(b)
                    yield b
            for r in pool.imap_unordered(_work, gen(), chunksize=1):
                agg.merge(r)
    # module-level finalisation: vacuity guards etc.
    infra = list(agg.infra)
    if hasattr(mod, "finalize"):
        try:
            infra.extend(mod.finalize(agg, tier) or [])
        except Exception as e:
            infra.append(f"finalize failed: {type(e).__name__}: {e}")
    wall = time.time() - t0

    # group violations by key; replay artefacts for the first of each key
    known = [k for k in load_known() if k.get("property") == pid]
    open_keys = {k["key"]: k for k in known if k.get("status") == "open"}
    by_key = {}
    for v in agg.violations:
        by_key.setdefault(v["key"], []).append(v)
    new_violation_lines = []
    known_lines = []
    for key in sorted(by_key):
        vs = by_key[key]
        first = min(vs, key=lambda v: (v.get("snippet") is None, len(json.dumps(v, default=repr))))
        first = dict(first, property=pid, occurrences_seen=len(vs), tier=tier, seed=seed)
        if key in open_keys:
            known_lines.append(f"KNOWN-FINDING: property={pid} {open_keys[key].get('what', key)}")
            continue
        path = write_replay(pid, first)
        new_violation_lines.append((f"VIOLATION property={pid} replay={path}", first))

    level = mod.LEVEL
    cov = {
        "states": max(agg.states, 0),
        "transitions": max(agg.transitions, 0),
        "traces_validated_against_impl": agg.executions + agg.revalidated,
        "evaluations": agg.executions,
        "executions_on_real_code": agg.executions,
        "re_executed_for_determinism_guard": agg.revalidated,
        "instances": n_inst,
        "distinct_nontrivial": len(agg.nontrivial),
        "rule": mod.RULE,
        "samples": jsonable(agg.samples[:8]) or [{"note": "no sample recorded"}],
        "exhaustive": bool(getattr(mod, "EXHAUSTIVE", True)) and agg.truncated == 0 and agg.skipped == 0,
        "exhaustive_note": "true = the stated box was enumerated completely; skipped/truncated counts say what was left out",
        "skipped_instances": agg.skipped,
        "truncated_paths": agg.truncated,
        "counters": {k: agg.counters[k] for k in sorted(agg.counters)},
        "bounds": getattr(mod, "BOUNDS", {}).get(tier, ""),
        "flags_seen": sorted(agg.flags),
        "known_findings_matched": len(known_lines),
        "infrastructure_errors": infra[:10],
    }
    ev = {
        "property_id": pid,
        "tier": tier,
        "seed": seed,
        "level": level,
        "coverage": cov,
        "assumptions": list(getattr(mod, "ASSUMPTIONS", [])),
        "wall_s": round(wall, 3),
        "violations": len(new_violation_lines),
    }
    # runs against a scratch copy of the repository (seeded changes, refactors) may divert their evidence
    evdir = os.environ.get("VERIF_EVIDENCE_DIR") or os.path.join(VERIF, "evidence")
    os.makedirs(evdir, exist_ok=True)
    with open(os.path.join(evdir, f"{pid}.json"), "w") as f:
        json.dump(ev, f, indent=1, sort_keys=True)

    print(f"[{pid}] tier={tier} seed={seed} instances={n_inst} executions={agg.executions} "
          f"states={agg.states} transitions={agg.transitions} re-executed={agg.revalidated} "
          f"nontrivial={len(agg.nontrivial)} skipped={agg.skipped} truncated={agg.truncated} "
          f"wall={wall:.1f}s")
    for k in sorted(agg.counters):
        print(f"[{pid}]   {k} = {agg.counters[k]}")
    for line in known_lines:
        print(line)
    if new_violation_lines:
        # a counterexample found on a completely explored instance stands on its own
        for m in infra[:10]:
            print(f"[{pid}] note (infrastructure): {m[:300]}")
        for line, v in new_violation_lines:
            print(f"[{pid}] violation key={v['key']} x{v['occurrences_seen']}: {v['message'][:400]}")
            print(line)
        return 1
    if infra:
        for m in infra[:10]:
            print(f"INFRASTRUCTURE-ERROR property={pid} {m}")
        return 2
    print(f"[{pid}] OK")
    return 0
