"""Input enumerators (exhaustive within stated boxes)."""
import itertools
import random as _random


def pairs(n):
    return [(i, j) for i in range(n) for j in range(i + 1, n)]


def mask_edges(n, mask, prs=None):
    prs = prs or pairs(n)
    return [prs[b] for b in range(len(prs)) if mask >> b & 1]


def labelled_graph_masks(n, no_isolated=False, connected=False):
    """All edge-subset masks of K_n (vertices 0..n-1)."""
    prs = pairs(n)
    m = len(prs)
    for mask in range(1 << m):
        if no_isolated or connected:
            deg = [0] * n
            for b in range(m):
                if mask >> b & 1:
                    deg[prs[b][0]] += 1
                    deg[prs[b][1]] += 1
            if min(deg, default=0) == 0 and n > 0:
                continue
            if connected and not is_connected(n, mask_edges(n, mask, prs)):
                continue
        yield mask


def is_connected(n, edges, verts=None):
    verts = list(range(n)) if verts is None else list(verts)
    if not verts:
        return True
    adj = {v: set() for v in verts}
    for a, b in edges:
        adj[a].add(b)
        adj[b].add(a)
    seen = {verts[0]}
    stack = [verts[0]]
    while stack:
        v = stack.pop()
        for w in adj[v]:
            if w not in seen:
                seen.add(w)
                stack.append(w)
    return len(seen) == len(verts)


def component_of(root, verts, edges):
    adj = {v: [] for v in verts}
    for a, b in edges:
        adj[a].append(b)
        adj[b].append(a)
    seen = {root}
    stack = [root]
    while stack:
        v = stack.pop()
        for w in adj[v]:
            if w not in seen:
                seen.add(w)
                stack.append(w)
    return seen


def components(verts, edges):
    verts = list(verts)
    left = set(verts)
    out = []
    while left:
        r = min(left)
        c = component_of(r, verts, edges)
        out.append(c)
        left -= c
    return out


def atlas_connected(nmin, nmax, max_edges=None):
    """Connected graphs up to isomorphism from the networkx atlas (ships with networkx): edge lists on 0..n-1."""
    import networkx as nx
    from networkx.generators.atlas import graph_atlas_g
    out = []
    for g in graph_atlas_g():
        n = g.number_of_nodes()
        if n < nmin or n > nmax or n == 0:
            continue
        if g.number_of_edges() == 0 and n > 1:
            continue
        if max_edges is not None and g.number_of_edges() > max_edges:
            continue
        if n > 1 and not nx.is_connected(g):
            continue
        out.append((n, sorted(tuple(sorted(e)) for e in g.edges())))
    return out


def maximal_cliques(verts, edges):
    """Own Bron-Kerbosch (no pivoting) - independent of networkx.find_cliques."""
    adj = {v: set() for v in verts}
    for a, b in edges:
        if a != b:
            adj[a].add(b)
            adj[b].add(a)
    out = []

    def bk(r, p, x):
        if not p and not x:
            out.append(sorted(r))
            return
        for v in sorted(p):
            bk(r | {v}, p & adj[v], x & adj[v])
            p = p - {v}
            x = x | {v}
    bk(set(), set(verts), set())
    return out


def all_cliques(verts, edges, min_size=2):
    """All cliques (vertex subsets inducing complete graphs), brute force over subsets."""
    es = {frozenset(e) for e in edges}
    verts = sorted(verts)
    out = []
    for k in range(min_size, len(verts) + 1):
        for sub in itertools.combinations(verts, k):
            if all(frozenset(p) in es for p in itertools.combinations(sub, 2)):
                out.append(sub)
    return out


def fresh(x):
    """A new object equal to x when x is an int outside CPython's small-int cache (so that two occurrences of one
    vertex label are equal but not identical, as in any network with more than 257 vertices); x itself otherwise."""
    if type(x) is int and not -6 < x < 257:
        return int(str(x))
    return x


def fresh_edges(edges):
    return [(fresh(a), fresh(b)) for a, b in edges]


def relabelings(n, seed, kinds=("identity", "reversed", "shifted")):
    """Deterministic family of vertex relabelings; 'shifted' is a 1-based shuffled labelling chosen by seed."""
    out = []
    for kind in kinds:
        if kind == "identity":
            out.append(list(range(n)))
        elif kind == "reversed":
            out.append(list(range(n - 1, -1, -1)))
        elif kind == "shifted":
            rng = _random.Random(1000 + seed * 7919 + n)
            lab = list(range(1, n + 1))
            rng.shuffle(lab)
            out.append(lab)
        elif kind == "large":
            out.append([1000 + 7 * i for i in range(n)])
        elif kind == "sparse":
            rng = _random.Random(2000 + seed * 104729 + n)
            lab = sorted(rng.sample(range(3, 40), n))
            rng.shuffle(lab)
            out.append(lab)
    return out


def compositions(total, parts):
    if parts == 1:
        yield (total,)
        return
    for i in range(total + 1):
        for rest in compositions(total - i, parts - 1):
            yield (i,) + rest


def joint_degree_sequences(N, t, maxdeg, sizes):
    """All length-N sequences of t-tuples with entries 0..maxdeg whose column sums are divisible by sizes."""
    rows = list(itertools.product(range(maxdeg + 1), repeat=t))
    for seq in itertools.product(rows, repeat=N):
        if all(sum(r[k] for r in seq) % sizes[k] == 0 for k in range(t)):
            yield list(seq)


def near_complete_graphs(n, max_removed):
    """K_n minus H for every graph H with <= max_removed edges up to isomorphism (H taken from the networkx atlas,
    padded with isolated vertices; plus the perfect-matching-like H = disjoint edges that need more than 7 vertices)."""
    from networkx.generators.atlas import graph_atlas_g
    hs = []
    for g in graph_atlas_g():
        if g.number_of_edges() > max_removed or g.number_of_nodes() > n:
            continue
        if g.number_of_nodes() and min(d for _, d in g.degree()) == 0:
            continue  # isolated vertices are added by padding
        hs.append(sorted(tuple(sorted(e)) for e in g.edges()))
    for k in range(4, max_removed + 1):
        if 2 * k <= n and 2 * k > 7:
            hs.append([(2 * i, 2 * i + 1) for i in range(k)])
    out = []
    allp = pairs(n)
    for h in hs:
        hs_ = set(h)
        out.append([e for e in allp if e not in hs_])
    return out
