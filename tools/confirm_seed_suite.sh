#!/bin/bash
# usage: tools/confirm_seed_suite.sh <worktree> <patch> <logfile>
# applies the patch in the scratch worktree, runs the repository's full test suite there, reverts.
wt=$1; patch=$2; log=$3
cd "$wt" || exit 2
git checkout -q -- . || exit 2
git apply "$patch" || { echo "PATCH DOES NOT APPLY" > "$log"; exit 2; }
env -u GCMPY_VERIF timeout 2400 /venv/bin/python -m pytest -q -p no:cacheprovider --timeout=900 > "$log" 2>&1
rc=$?
git checkout -q -- .
echo "exit=$rc" >> "$log"
exit $rc
