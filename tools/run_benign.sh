#!/bin/bash
# Apply every stored behaviour-preserving refactor (benign/*/patch.diff) in a scratch worktree and run the checks
# listed in its checks.txt; every check must stay silent (exit 0).  usage: tools/run_benign.sh [worktree]
V=$(cd "$(dirname "$0")/.." && pwd)
WT=${1:-/tmp/benign_wt}
[ -d "$WT" ] || git -C /repo worktree add --detach "$WT" HEAD >/dev/null
bad=0
for d in "$V"/benign/*/; do
  git -C "$WT" checkout -q -- . && git -C "$WT" apply "$d/patch.diff" || { echo "$(basename $d): patch does not apply"; bad=1; continue; }
  for c in $(cat "$d/checks.txt"); do
    out=$(cd "$V" && GCMPY_REPO="$WT" VERIF_EVIDENCE_DIR=/tmp/verif_evidence_scratch ./check $c 2>&1); rc=$?
    echo "$(basename $d) $c exit=$rc"
    [ $rc -eq 0 ] || { bad=1; echo "$out" | grep -E 'VIOLATION|violation key|INFRA' | head -3; }
  done
done
git -C "$WT" checkout -q -- .
git -C /repo worktree remove --force "$WT"; git -C /repo worktree prune
exit $bad
