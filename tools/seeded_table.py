#!/venv/bin/python
"""Print a markdown table of the seeded changes stored under /verif/seeded."""
import glob
import json
import os

rows = []
for d in sorted(glob.glob("/verif/seeded/C*/")):
    m = json.load(open(os.path.join(d, "meta.json")))
    rows.append((os.path.basename(d.rstrip("/")), m["property"], m["needs_to_manifest"], m["caught_by"]))
print("| seed | property | needs in order to manifest | caught by |")
print("|---|---|---|---|")
for r in rows:
    print("| " + " | ".join(x.replace("|", "/") for x in r) + " |")
