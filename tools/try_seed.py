#!/venv/bin/python
"""Apply a seeded change to /repo, run its demonstration and the given quick checks, undo it.

usage: tools/try_seed.py <dir with patch.diff [demo.py]> <check id> [<check id> ...] [--tier thorough]
Prints one summary line per check; exit 0 if at least one check reported a VIOLATION for the change.
"""
import os
import subprocess
import sys

REPO = os.environ.get("SEED_REPO", "/repo")   # a scratch worktree may be used instead of /repo itself
VERIF = os.path.dirname(os.path.dirname(os.path.abspath(__file__)))


def sh(cmd, cwd=None, timeout=3600):
    p = subprocess.run(cmd, shell=True, cwd=cwd, stdout=subprocess.PIPE, stderr=subprocess.STDOUT, text=True,
                       timeout=timeout)
    return p.returncode, p.stdout


def main():
    args = [a for a in sys.argv[1:] if not a.startswith("--")]
    tier = "thorough" if "--tier=thorough" in sys.argv or "--thorough" in sys.argv else "quick"
    d = os.path.abspath(args[0])
    checks = args[1:]
    patch = os.path.join(d, "patch.diff")
    demo = os.path.join(d, "demo.py")
    rc, out = sh("git status --porcelain", cwd=REPO)
    if out.strip():
        print("refusing: /repo is not clean:\n" + out)
        return 2
    rc, out = sh(f"git apply --check {patch}", cwd=REPO)
    if rc:
        print("patch does not apply:\n" + out)
        return 2
    caught = []
    try:
        sh(f"git apply {patch}", cwd=REPO)
        if os.path.exists(demo):
            rc, out = sh(f"/venv/bin/python -W ignore {demo}", cwd=REPO, timeout=900)
            print(f"demo with change   : exit {rc}  ({out.strip().splitlines()[-1][:150] if out.strip() else ''})")
        for c in checks:
            rc, out = sh(f"GCMPY_REPO={REPO} VERIF_EVIDENCE_DIR=/tmp/verif_evidence_scratch ./check {c} --tier {tier}",
                         cwd=VERIF, timeout=7200)
            viol = [l for l in out.splitlines() if l.startswith("VIOLATION")]
            keys = [l for l in out.splitlines() if "violation key=" in l]
            infra = [l for l in out.splitlines() if l.startswith("INFRASTRUCTURE-ERROR")]
            print(f"check {c} ({tier})   : exit {rc}  violations={len(viol)} infra={len(infra)}")
            for k in keys[:3]:
                print("    " + k[:300])
            for k in infra[:2]:
                print("    " + k[:300])
            if rc == 1 and viol:
                caught.append(c)
    finally:
        sh("git checkout -- .", cwd=REPO)
    if os.path.exists(demo):
        rc, out = sh(f"/venv/bin/python -W ignore {demo}", cwd=REPO, timeout=900)
        print(f"demo without change: exit {rc}")
    rc, out = sh("git status --porcelain", cwd=REPO)
    print("repo clean again:", not out.strip(), "| caught by:", caught or "NONE")
    return 0 if caught else 1


if __name__ == "__main__":
    sys.exit(main())
