#!/venv/bin/python
"""Store a confirmed seeded change under /verif/seeded/<name>/ (patch.diff, demo.py, notes.md, meta.json)."""
import json
import os
import shutil
import sys

src, name, prop, needs, caught_by, suite = sys.argv[1:7]
extra = sys.argv[7] if len(sys.argv) > 7 else ""
dst = os.path.join("/verif/seeded", name)
if os.path.exists(dst):
    sys.exit(f"refusing to overwrite {dst}")
os.makedirs(dst)
for f in ("patch.diff", "demo.py", "notes.md"):
    if os.path.exists(os.path.join(src, f)):
        shutil.copy(os.path.join(src, f), os.path.join(dst, f))
meta = {
    "property": prop,
    "source": "fresh sub-agent given only the property text and a scratch worktree of /repo",
    "needs_to_manifest": needs,
    "what_i_ran": [
        "tools/confirm_seed_suite.sh <scratch worktree> patch.diff  -> " + suite,
        "tools/try_seed.py <dir> " + prop + "  (git -C /repo apply; demo; ./check; git -C /repo checkout -- .): demo fails "
        "with the change and passes without it",
    ],
    "caught_by": caught_by,
    "remarks": extra,
}
with open(os.path.join(dst, "meta.json"), "w") as f:
    json.dump(meta, f, indent=1)
print("stored", dst)
