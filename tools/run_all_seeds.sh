#!/bin/bash
# Re-run every stored seeded change against the quick check of its property, in a scratch worktree of /repo
# (tools/try_seed.py diverts the evidence of these runs to /tmp/verif_evidence_scratch).
wt=${1:-/tmp/regress_repo}
git -C /repo worktree add -q --detach "$wt" HEAD 2>/dev/null
out=/tmp/seed_regression.log; : > $out
for d in /verif/seeded/C*/; do
  name=$(basename $d); prop=$(/venv/bin/python -c "import json;print(json.load(open('$d/meta.json'))['property'])")
  echo "##### $name" >> $out
  SEED_REPO=$wt timeout 2400 /venv/bin/python /verif/tools/try_seed.py $d $prop 2>&1 | tail -n 4 | cut -c1-250 >> $out
done
git -C /repo worktree remove --force "$wt"
grep -c "caught by: \['" $out; grep -B3 "caught by: NONE" $out | grep "#####"
